#!/venv/bin/python
"""Atheris (libFuzzer) target for C15. The bytes are decoded into (stage, segmentation, rounds); the oracle of vf/props/c15.py is applied
inside the target. A violation does not crash the fuzzer: each NEW signature is written as a replayable case file into $C15_FUZZ_OUT and
the campaign goes on (so several root causes are enumerated in one run)."""
import json
import os
import sys

HERE = os.path.dirname(os.path.dirname(os.path.abspath(__file__)))
sys.path.insert(0, HERE)
sys.path.insert(0, os.path.join(HERE, ".deps"))
import atheris  # noqa: E402

with atheris.instrument_imports(include=["httpcore", "h11", "h2", "hpack", "hyperframe", "socksio"]):
    from vf.props import c15  # noqa: E402  (imports httpcore from the tree under test)

from vf.common import jsonable  # noqa: E402

OUT = os.environ.get("C15_FUZZ_OUT", "/tmp/c15_fuzz_out")
SEEN = set()
STATS = {"execs": 0, "nontrivial": 0, "outcomes": {}}
SEGS = [None, [1], [3, 50], [9], [7, 1, 100]]


def decode(data: bytes):
    """byte 0: stage, 1: segmentation, 2: number of rounds (1-5), 3: method, then one length byte per round but the last, then the payload."""
    stage = c15.STAGES[data[0] % len(c15.STAGES)]
    seg = SEGS[data[1] % len(SEGS)]
    n_rounds = data[2] % 5 + 1
    method = ["GET", "POST", "HEAD"][data[3] % 3]
    lens = list(data[4:4 + n_rounds - 1])
    payload = data[4 + n_rounds - 1:]
    rounds = []
    pos = 0
    for n in lens:
        rounds.append(payload[pos:pos + n])
        pos += n
    rounds.append(payload[pos:])
    return {"stage": stage, "rounds": rounds, "seg": seg, "method": method, "sync": True}


def encode(stage, rounds, seg_i=0, method_i=0):
    """Inverse of decode for seeds (rounds but the last must be < 256 bytes)."""
    rounds = list(rounds)
    while len(rounds) > 5:
        rounds[-2:] = [rounds[-2] + rounds[-1]]
    head = bytes([c15.STAGES.index(stage), seg_i, len(rounds) - 1, method_i]) + bytes(min(len(r), 255) for r in rounds[:-1])
    body = b"".join(r[:255] for r in rounds[:-1]) + rounds[-1]
    return head + body


def write_seed_corpus(directory):
    os.makedirs(directory, exist_ok=True)
    n = 0
    for key, (stage, conv) in c15.valid_conversations().items():
        rounds = conv if isinstance(conv, list) else [b"", conv]
        for seg_i in (0, 1):
            with open(os.path.join(directory, f"seed-{n}"), "wb") as f:
                f.write(encode(stage, rounds, seg_i))
            n += 1
    return n


def TestOneInput(data: bytes):
    if len(data) < 6:
        return
    case = decode(data)
    out = c15.execute_grammar(case)
    STATS["execs"] += 1
    if out.nontrivial:
        STATS["nontrivial"] += 1
    o = out.info["outcome"]
    STATS["outcomes"][o] = STATS["outcomes"].get(o, 0) + 1
    for v in out.violations:
        key = json.dumps(v["sig"], sort_keys=True)
        if key not in SEEN:
            SEEN.add(key)
            os.makedirs(OUT, exist_ok=True)
            with open(os.path.join(OUT, f"finding-{os.getpid()}-{len(SEEN)}.json"), "w") as f:
                json.dump({"sig": v["sig"], "msg": v["msg"], "case": jsonable(case)}, f)
    if STATS["execs"] % 2000 == 0:
        with open(os.path.join(OUT, f"stats-{os.getpid()}.json"), "w") as f:
            json.dump(STATS, f)


def main():
    os.makedirs(OUT, exist_ok=True)
    if os.environ.get("C15_FUZZ_SEED_CORPUS"):
        write_seed_corpus(os.environ["C15_FUZZ_SEED_CORPUS"])
    atheris.Setup(sys.argv, TestOneInput)
    try:
        atheris.Fuzz()
    finally:
        with open(os.path.join(OUT, f"stats-{os.getpid()}.json"), "w") as f:
            json.dump(STATS, f)


if __name__ == "__main__":
    main()
