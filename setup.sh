#!/bin/bash
# setup_cmd: make sure the interpreter that has the repository's dependencies can also import
# hypothesis (and atheris for the thorough tier of C15). Everything comes from the offline wheelhouse.
set -u
cd "$(dirname "$0")"
PY=/venv/bin/python
WH=/opt/veriftools/wheels
mkdir -p .deps
export PYTHONPATH="$PWD/.deps${PYTHONPATH:+:$PYTHONPATH}"
if ! $PY -c "import hypothesis" 2>/dev/null; then
  $PY -m pip install -q --no-index --find-links $WH --target .deps hypothesis || { echo "setup: cannot install hypothesis"; exit 2; }
fi
if ! $PY -c "import atheris" 2>/dev/null; then
  $PY -m pip install -q --no-index --find-links $WH --target .deps atheris || echo "setup: atheris not installable (C15 thorough tier will skip the libFuzzer layer)"
fi
$PY - <<'PY' || exit 2
import sys
sys.path.insert(0, "/repo")
import hypothesis, anyio, trio, h11, h2, hpack, hyperframe, socksio, httpcore
print("setup ok: hypothesis", hypothesis.__version__, "httpcore", httpcore.__version__, "from", httpcore.__file__)
PY
