#!/bin/bash
# tools/allmutants.sh : sensitivity regression - every mutants/<cNN>_*.patch against check CNN (quick tier), every seeded/<id>/patch.diff against
# the check named by its directory prefix. Prints one line per patch; a line with exit!=1 is a regression of the machinery.
cd "$(dirname "$0")/.."
export VERIF_STALL_S=${VERIF_STALL_S:-40}
for p in mutants/*.patch; do
  id=$(basename "$p" | cut -c1-3 | tr a-z A-Z)
  extra=""
  case "$(basename $p)" in
    c01_h11_available_when_active.patch) id=C07;;
    c06_tunnel_refusal_not_closed.patch) id=C05;;
    c01_h2_event_misrouted.patch) id="C01 C12";;
    trio_shield_off.patch) id=C05;;
    trio_pool_timeout_never.patch|trio_pool_timeout_unmapped.patch|trio_pool_timeout_move_on.patch) id=C16;;
    trio_semaphore_double_release.patch) id="C18 C12";;
    real_sync_read_oserror_unmapped.patch|real_trio_broken_unmapped.patch) id=C15;;
    real_anyio_read_timeout_ignored.patch) id="C15 C16";;
    real_sync_connect_timeout_dropped.patch|real_tlsintls_read_no_timeout.patch) id=C16;;
    real_sync_tlsintls_close_noop.patch) id=C06;;
    real_sync_partial_write_drops_byte.patch) id=C03;;
    real_trio_sni_dropped.patch) id=C10;;
  esac
  timeout 1500 tools/mutant.sh "$p" $id | cut -c1-160
done
for d in seeded/*/; do
  id=$(basename "$d" | cut -c1-3)
  case "$(basename $d)" in
    C05-trio-pool-timeout-cancel-called) continue;;  # neutralised by repo fix bcb0a82 (see its meta.json)
    C01-h2-flush-acks-before-dispatching-read-events) continue;;  # not reported: hidden behind the open finding F-C07 (see its meta.json)
    C08-pool-request-wait-without-assigned-guard|C16-sync-write-settimeout-hoisted-out-of-send-loop) continue;;  # not reported by the quick tier (see each meta.json)
    C11-origin-eq-folds-ws-into-http) id=C10;;
    # written for one property, reported by the check of another (see each meta.json)
    C07-h2-validate-head-before-slot-wait|C04-response-close-finally-drops-shield|C07-pool-response-close-finally-instead-of-shield) id=C05;;
    C11-tunnel-connect-lock-check-outside-lock|C08-h2-setup-count-dropped-before-stream-slot) id=C12;;
    C10-url-origin-memoised-on-mutable-url) id=C19;;
    C03-h2-stale-flow-credit-across-frames) id=C13;;
  esac
  timeout 1500 tools/mutant.sh "$d/patch.diff" $id | sed "s#MUTANT patch.diff#SEED $(basename $d)#" | cut -c1-200
done
