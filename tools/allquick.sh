#!/bin/bash
# tools/allquick.sh <seed...> : run every registered quick check for each seed, one line per check (used to hunt for alarms on the unchanged tree)
cd "$(dirname "$0")/.."
for seed in "$@"; do
  for id in C01 C02 C03 C04 C05 C06 C07 C08 C09 C10 C11 C12 C13 C14 C15 C16 C17 C18 C19 C20; do
    t0=$(date +%s)
    out="$(VERIF_SEED=$seed VERIF_OUT=${VERIF_OUT:-} ./check $id --tier quick 2>&1)"; rc=$?
    echo "seed=$seed $id exit=$rc $(( $(date +%s) - t0 ))s $(echo "$out" | grep -m1 '^violation' | cut -c1-300)"
  done
done
