#!/bin/bash
# tools/allreverts.sh : every `fix:` commit recorded in known_findings.json, reverted on a scratch copy (mutants/reverts/revert_<property>_<commit>.patch),
# must make the check of its property report a violation again (quick tier; the regression corpus is replayed first). A line with exit!=1 means that
# a repaired defect could come back unnoticed. (Reverts that no longer applied mechanically were carried over by hand; bb634ac and 42667fd are
# represented by seeded/C09-surplus-counts-total and mutants/c05_* / c06_* instead. revert_C12_25a1fd4 was masked for a while by d2b2d6b; since the histories
# draw keepalive_expiry it is reported again.)
cd "$(dirname "$0")/.."
export VERIF_STALL_S=${VERIF_STALL_S:-40}
for p in mutants/reverts/*.patch; do
  id=$(basename "$p" | cut -d_ -f2)
  timeout 1500 tools/mutant.sh "$p" $id | cut -c1-220
done
