#!/bin/bash
# tools/allseeds_parallel.sh [P] : like the second half of allmutants.sh (every seeded/<id>/patch.diff against the check that reports it, quick tier), P at a time
cd "$(dirname "$0")/.."
export VERIF_STALL_S=${VERIF_STALL_S:-40}
P=${1:-3}
one() {
  d="$1"; b=$(basename "$d"); id=$(echo "$b" | cut -c1-3)
  case "$b" in
    C05-trio-pool-timeout-cancel-called|C01-h2-flush-acks-before-dispatching-read-events|C08-pool-request-wait-without-assigned-guard|C16-sync-write-settimeout-hoisted-out-of-send-loop) exit 0;;
    C11-origin-eq-folds-ws-into-http) id=C10;;
    C07-h2-validate-head-before-slot-wait|C04-response-close-finally-drops-shield|C07-pool-response-close-finally-instead-of-shield) id=C05;;
    C11-tunnel-connect-lock-check-outside-lock|C08-h2-setup-count-dropped-before-stream-slot) id=C12;;
    C10-url-origin-memoised-on-mutable-url) id=C19;;
    C03-h2-stale-flow-credit-across-frames) id=C13;;
  esac
  timeout 1500 tools/mutant.sh "$d/patch.diff" $id | sed "s#MUTANT patch.diff#SEED $b#" | cut -c1-200
}
export -f one
ls -d seeded/*/ | xargs -P "$P" -I{} bash -c 'one {}'
