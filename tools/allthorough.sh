#!/bin/bash
# tools/allthorough.sh [ID...] : run the thorough tier of the named (default: all) checks once, one line per check
cd "$(dirname "$0")/.."
IDS="${@:-C01 C02 C03 C04 C05 C06 C07 C08 C09 C10 C11 C12 C13 C14 C15 C16 C17 C18 C19 C20}"
for id in $IDS; do
  t0=$(date +%s)
  out="$(VERIF_SEED=${VERIF_SEED:-1} VERIF_OUT=${VERIF_OUT:-} ./check $id --tier thorough 2>&1)"; rc=$?
  echo "thorough seed=${VERIF_SEED:-1} $id exit=$rc $(( $(date +%s) - t0 ))s $(echo "$out" | grep -m1 '^violation' | cut -c1-300)"
  [ $rc -eq 0 ] || echo "$out" | tail -20
done
