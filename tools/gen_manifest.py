#!/usr/bin/env python3
"""Regenerates /verif/MANIFEST.json from the table below (and validates it when jsonschema is importable).
Run with python3-vt (has jsonschema) or any python3."""
import json
import os
import sys

HERE = os.path.dirname(os.path.dirname(os.path.abspath(__file__)))

# id -> (level, technique, level text, level note, design ref)
CHECKS = {
    "C01": ("exploration",
            "Hypothesis-generated concurrent histories on a harness-scheduled asyncio run (generated schedule, segmentation, faults, cancellation); oracle = token echo + per-connection wire check by the peer model",
            "2-4 callers x 1-3 requests over pooled HTTP/1.1 and HTTP/2 connections (direct, proxies) with early closes, faults, a cancellation, "
            "Connection: close, HTTP/1.0, server-side closes and delayed delivery of server bytes; every response must carry the token of its own "
            "request and no request head may start on a connection whose previous exchange is unfinished or announced close.",
            "harness-scheduled asyncio and trio runs (choice lists, late-loop and two-actions-at-once schedules); in undisturbed runs no request may "
            "fail; layer real-concurrent repeats token echo / no-failure with 2-6 async callers over real sockets (schedule not controlled there); "
            "schedules sampled; the server is well-behaved by construction (it may answer early, as soon as the request head has arrived). Layer "
            "fault-then-reuse enumerates a fault of every kind at every network operation of an exchange followed by two more requests to the same "
            "origin (inline sync + async); cancellations can also be requested at the moment another task hands the victim a connection.",
            "3 C01"),
    "C02": ("exploration",
            "Hypothesis-generated responses x bounded-exhaustive cut/truncation positions against the server plan's ground truth",
            "Each generated well-formed HTTP/1.1 or HTTP/2 response is delivered whole, byte-at-a-time, split at every single "
            "position, at drawn multi-cut sets, and truncated at every position; the caller must see exactly the planned "
            "status/reason/version/headers/body, or an error for an incomplete message.",
            "Own wire builders (vf/peers/h1.py, h2.py on hyperframe+hpack) define ground truth; responses are sampled, cut "
            "positions exhaustive per response up to 1200 wire bytes (structural offsets + grid beyond). Layer real-backends repeats the "
            "ground-truth comparison through httpcore's own sync/anyio/trio backends over loopback sockets with real TLS (segmentation there is "
            "the kernel's, not controlled). HTTP/2 responses are also reset (RST_STREAM, 9 error codes incl. NO_ERROR) after every prefix of their frames.",
            "3 C02"),
    "C03": ("exploration",
            "Hypothesis-generated requests decoded by an independent parser (own HTTP/1.1 parser; hyperframe+hpack for HTTP/2) and compared with the caller's request",
            "Generated legal and definitely-illegal requests over HTTP/1.1 and HTTP/2, first use and reuse, three API entry points, "
            "plus GOAWAY-refused re-sends; every transmission is decoded independently and must equal the caller's request, illegal "
            "heads must raise LocalProtocolError with nothing written.",
            "Own decoders are the reference; header-name case on HTTP/1.1 and connection-specific headers are outside the oracle. The resend layer also covers "
            "HTTP/1.1 requests on a reused connection that is hit by a fault at a drawn operation: every complete transmission is judged.",
            "3 C03"),
    "C04": ("exploration",
            "same generated concurrent histories; invariant monitor evaluated after every simulated network op and at every quiescence",
            "len(pool.connections) <= N and open streams (minus those of connections that already left the pool and carry no request bytes "
            "afterwards) <= N, checked at every op boundary of every generated schedule with limits 1-3 and up to 5 callers.",
            "harness-scheduled asyncio and trio runs (a third of the histories run on trio); schedules sampled.",
            "3 C04"),
    "C05": ("fault_enumeration",
            "exhaustive fault-position x fault-kind and cancellation-point x style enumeration over base scenarios on a harness-scheduled asyncio run, plus Hypothesis-drawn fault/cancel/schedule combinations; oracle = pool state predicates and a behavioural capacity probe",
            "For 21 connection kinds (incl. Unix-socket pools and forced HTTP/2 over TLS) x 4 contexts x 3 request shapes: one run per fault-eligible network op index and documented fault kind, and "
            "one per suspension point of the victim and cancellation style (asyncio task.cancel, anyio scope); afterwards the pool must count no "
            "request, hold no stuck connection, and serve max_connections simultaneous probe requests without waiting.",
            "asyncio (task.cancel and anyio scope) and trio (trio.CancelScope; layer 'trio' re-runs the enumeration on the trio runtime) ; SimNet stands for the backends (handshake faults are repeated under a backend that leaves the stream open, with retries 0 and 2; closing the "
            "plain-TCP stream object after a TLS upgrade closes nothing, as with the sync backend); requests the client itself refuses (illegal head, "
            "Content-Length mismatch) are enumerated as failures too; known open findings are matched by signature and listed.",
            "3 C05"),
    "C06": ("fault_enumeration",
            "same enumerated and generated runs as C05 with a stream ledger oracle (opened / owned / closed) over the simulated network",
            "Every run of the C05 enumeration is followed by pool.aclose(); every open stream must be reachable from a pooled connection before "
            "the close and none may be open after it.",
            "ownership = reachability through httpcore objects from pool.connections; 'open' means the simulated pipe. Layer real-backends: "
            "real sockets - after pool.close() the server side must have seen the client's close on every connection and no socket may be "
            "dropped unclosed (ResourceWarning ledger).",
            "3 C06"),
    "C07": ("exploration",
            "same generated concurrent histories; quiescence invariant (no serviceable queued request) + deadlock / livelock detection by the harness scheduler",
            "At every quiescence of the event loop no queued request may be serviceable; a run that reaches quiescence with unfinished callers and "
            "no enabled action is a deadlock; a loop that never becomes quiescent is a livelock. Limits 1-2, up to 5 callers, pool timeouts on a "
            "virtual clock, faults, cancellation, h2-capable pools against h1 servers.",
            "Liveness is decided as deadlock-freedom in a closed simulated world with a fair fallback scheduler; schedules sampled.",
            "3 C07"),
    "C08": ("exploration",
            "controlled-thread scheduling (real threads, harness-owned baton scheduler with lock/op/source-line pre-emption points): Hypothesis-generated PCT-style schedules plus a systematic enumeration of every single pre-emption point of five base scenarios; oracle = token echo, no exception from a well-behaved server, limit, deadlock detection",
            "2-4 threads share one sync pool; the harness decides at every SimNet op, cooperative lock/event/semaphore operation and (optionally) "
            "every source line of the sync package which thread runs. Generated switch sets, and for five two-thread base scenarios every yield point x "
            "switch-back distance 0-3. Every request must return its own response without any exception, the limit must hold, no deadlock.",
            "stdlib threading is trusted and replaced by cooperative stand-ins inside httpcore._synchronization; interleavings are sampled / single-preemption exhaustive.",
            "3 C08"),
    "C09": ("exploration",
            "model-based stateful testing: Hypothesis-generated operation sequences applied in lock-step to live sync and asyncio pools and to a reference keep-alive model fed by wire observations",
            "Generated sequences of requests, streaming opens, (partial) closes, clock advances and server-side closes over 1-3 origins for drawn "
            "max_connections / max_keepalive_connections / keepalive_expiry (incl. 0 and None), HTTP/1.1 and HTTP/2: reuse law, idle count <= "
            "keep-alive limit after every operation, no stale connection handed out, every close of an idle connection attributable.",
            "Reference model in vf/props/c09.py; ties within 1 ms of a deadline are not judged; sequential (single caller); operations include server-side closes of idle HTTP/1.1 connections and server PINGs on idle HTTP/2 connections. Layer real-backends: the real socket-readability probe behind the sync / anyio / trio backends (plain, TLS, TLS-in-TLS): silent server-side close of the idle connection, then the next request; reuse without a close.",
            "3 C09"),
    "C10": ("exploration",
            "exhaustive configuration matrix + Hypothesis request histories over near-miss origins; oracle = establishment chain of the pipe that carried each token",
            "All 1080 cells of scheme x port form x proxy mode x http1/http2 x ALPN outcome x sni (sync and async) and sampled sequential "
            "histories over origins differing in one component: connect target / CONNECT target / SOCKS command, TLS layers, SNI, ALPN offer "
            "and spoken protocol are read off the simulated network's trace and the peers' own parsers.",
            "TLS is a marker layer on SimNet; layer real-backends performs real handshakes through httpcore's own backends and judges server name "
            "and ALPN list parsed from the ClientHello; tunnel SNI override and the https-proxy hop's server name are outside the oracle.",
            "3 C10"),
    "C11": ("exploration",
            "Hypothesis-generated proxy configurations, requests and proxy replies; oracle = the proxy model's own parsers plus planted marker strings",
            "Forward, CONNECT-tunnel and SOCKS5 hops with generated credentials, colliding proxy headers, bodies and every kind of proxy reply: "
            "absolute-form target and header merge law on the forward hop, exact CONNECT host:port / Host, no caller data in CONNECT, no proxy "
            "data inside the tunnel, ProxyError and silence after a refusal, exact SOCKS greeting / credentials / command.",
            "Own parsers decode the hop; CONNECT interim replies and SOCKS reply codes 9-255 are C15's domain.",
            "3 C11"),
    "C12": ("exploration",
            "Hypothesis-generated multiplexing scenarios on the harness-scheduled asyncio driver with a frame-level HTTP/2 peer model (hyperframe+hpack); oracle = per-stream token echo + the peer's own open-stream accounting + deadlock detection",
            "2-8 concurrent requests on one HTTP/2 connection; the peer interleaves HEADERS/DATA/RST_STREAM/SETTINGS(MAX_CONCURRENT_STREAMS up/down)/PING "
            "frame by frame in scheduler-chosen order; callers read fully, partly or never. Each caller must get exactly its own stream's data, the "
            "open-stream count at every stream-opening HEADERS must respect the ACKed limit, non-reset streams must complete.",
            "asyncio and trio drivers; layer pool-histories: undisturbed HTTP/2 histories through the pool (evictions, keep-alive 0, bursts) - no "
            "request may fail because of what siblings or other origins did; layer real-concurrent: the same over real sockets; "
            "MAX_CONCURRENT_STREAMS=0 not generated; interleavings sampled; scripted PINGs may come from a server that holds back the streams until "
            "its PING has been acknowledged; layer disturbed-histories: the general concurrent histories (faults, one cancelled caller, peer actions, "
            "keepalive_expiry 0) restricted to HTTP/2 kinds - a caller nobody cancelled must not end with a sibling's cancellation.",
            "3 C12"),
    "C13": ("exploration",
            "Hypothesis-generated upload/download scenarios against a peer that keeps its own window and frame-size accounting, plus an enumerated grid of sizes x policies; starvation decided at quiescence",
            "1-3 concurrent uploads around the window boundaries with peer-chosen INITIAL_WINDOW_SIZE / MAX_FRAME_SIZE / WINDOW_UPDATE policy and "
            "mid-upload window and MAX_FRAME_SIZE changes (raised and lowered); downloads beyond the client's 2^24+65,535 credit and sequences of multi-MiB downloads. DATA frames must fit the "
            "ACKed frame size and both windows, uploads arrive intact, no upload waits while it holds credit, downloads complete.",
            "the peer's accounting is the reference (lenient in the client's favour while SETTINGS are un-ACKed).",
            "3 C13"),
    "C14": ("fault_enumeration",
            "exhaustive enumeration of fault positions x kinds and of HTTP/2 peer actions (RST_STREAM, GOAWAY with every last-stream-id class) at every frame-level event, plus Hypothesis-drawn combinations; oracle = transmissions per token counted by the peers' parsers over all connections",
            "For 8 connection kinds x 3 contexts x 2 shapes x retries {0,2}: every fault-eligible op x documented fault kind; for HTTP/2 every "
            "occurrence of request-HEADERS / DATA / request-complete / response-sent x {RST, GOAWAY 0/below/equal/above, with/without close}. A call's "
            "request may appear on one connection only (two iff a GOAWAY refused the first), refused calls must succeed via the re-send, no new "
            "stream after a processed GOAWAY.",
            "asyncio driver; the HTTP/2 peer is truthful about last-stream-id; deadlocks belong to C07/C12.",
            "3 C14"),
    "C15": ("exploration",
            "fuzzing: structure-aware Hypothesis grammars with injected defects, mutation of recorded valid conversations, enumerated backend-fault injection, and (thorough) an Atheris/libFuzzer coverage-guided campaign; oracle = exception class is documented and matches the cause, call terminates",
            "Arbitrary peer bytes at every stage (HTTP/1.1 head/body/chunking, HTTP/2 frames of any type/flags/length/stream id with HPACK defects, SOCKS5 "
            "and CONNECT replies) from grammars, mutations and coverage-guided fuzzing, every documented backend exception at every network op of 9 "
            "connection kinds, and caller-invalid requests: only documented httpcore exceptions of the right class may reach the caller, and the call ends.",
            "Replay peer semantics (vf/peers/replay.py); libFuzzer campaigns are reproducible only through their saved case files. Layer "
            "real-backends injects real network faults (RST, FIN, silence, TLS alerts / bad records, refused / hanging connects) under "
            "httpcore's own backends; verdicts there are made independent of machine load (DESIGN 8.7). Layer h2-siblings: 2-3 streamed HTTP/2 "
            "responses are open on one connection when the defective frames arrive; every step (open, read, close) of every stream is judged.",
            "3 C15"),
    "C16": ("exploration",
            "exhaustive configuration matrix over the op trace of a simulated backend (timeout argument of every network op) + virtual-clock pool-timeout schedules",
            "Every combination of connect/read/write/pool in {absent, None, 0, value} x 14 connection kinds x 3 request shapes, two requests "
            "with different dictionaries per cell, sync and async: the timeout argument of every connect/start_tls/read/write op is compared "
            "with the issuing request's configuration.",
            "SimNet records the arguments of every backend call (Unix-socket pools included); layer retry-attempts: every retried connection attempt must carry the "
            "request's connect timeout; pool-timeout waiters may share one caller-owned timeout dictionary. Layer real-backends checks with real sockets that the sync/anyio/trio "
            "backends apply the value: a silent peer must yield the matching Timeout class, not before 0.06 s and not 5 s late.",
            "3 C16"),
    "C17": ("exploration",
            "bounded-exhaustive enumeration (cut subsets x max_bytes sequences) plus Hypothesis sampling; oracle = exact byte stream the peer sent after the head",
            "101 / CONNECT-2xx hand-over: for d<=6 every subset of cut positions around the head end and every max_bytes sequence over "
            "{1,2,64} up to length 3; random layer with up to 200 kB leading data, interleaved writes and reads; tunnel proxy CONNECT "
            "reply head under every single cut.",
            "Peer echo stands for live data; reads are only issued when the model says bytes are pending. Layer real-backends: 101 Upgrade over "
            "real sockets (plain, TLS, TLS-in-TLS, SOCKS, CONNECT) through httpcore's own backends with a segmentation-independent echo, plus a "
            "full-duplex step on plain-TCP kinds (a read pending on live data while another thread / task writes).",
            "3 C17"),
    "C18": ("translation_validation",
            "exhaustive line-by-line re-translation with the repository's own unasync_line + generated sync/async differential",
            "Every line of every _async/_sync file pair is re-translated and compared (exhaustive over the source); generated "
            "single-caller scenarios are run through both API variants and all observables compared.",
            "Trusts scripts/unasync.py of the working tree as the reference translator and SimNet as the common peer; the differential also "
            "runs the async classes on trio, and (layer real-backends) all four variants over real sockets (for a silent peer a Timeout class in one "
            "variant against an error class in another is a difference; which short limit expired is not).",
            "3 C18"),
    "C19": ("exploration",
            "Hypothesis property tests against an own RFC 3986 splitter (reference model) plus origin/round-trip/Host laws",
            "Generated URLs from RFC 3986 productions, header containers and content kinds checked against an independent "
            "splitter, an origin equality law on near-miss pairs, a bytes() round trip and Host/Content-Length synthesis laws.",
            "Own ~40-line splitter is the reference; sampled, not exhaustive; port 0 / >65535 outside the domain; law 9: the origin follows reassigned scheme / host / port attributes of a URL object.",
            "3 C19"),
    "C20": ("fault_enumeration",
            "exhaustive enumeration of connect/TLS outcome sequences against a reference retry-law model, plus Hypothesis sampling",
            "Every run of retryable failures followed by every terminal outcome, for N in 0..4, TCP/Unix socket, plain/TLS, "
            "sync and async, compared with the exact op list and exception the retry law predicts.",
            "SimNet replaces sockets (documented backend interface); the 15-line retry model is the oracle; terminal outcomes include OSError-family exceptions, and the request's connect timeout is a dimension (the law does not depend on it).",
            "3 C20"),
}

NOT_YET = {}


def main():
    props = [json.loads(l) for l in open(os.path.join(HERE, "properties.jsonl"))]
    ids = [p["id"] for p in props]
    na_path = os.path.join(HERE, "tools", "not_applicable.json")
    na = json.load(open(na_path)) if os.path.exists(na_path) else {}
    checks = []
    for pid in ids:
        if pid not in CHECKS:
            continue
        level, technique, text, note, ref = CHECKS[pid]
        checks.append({
            "property_id": pid,
            "quick_cmd": f"./check {pid} --tier quick",
            "thorough_cmd": f"./check {pid} --tier thorough",
            "evidence_file": f"evidence/{pid}.json",
            "replay_cmd_template": f"./check {pid} --replay {{path}}",
            "engine": "simnet-hypothesis",
            "level_claimed": {"category": level, "text": text, "design_ref": "DESIGN.md section " + ref},
            "level_note": note,
            "technique": technique,
        })
    manifest = {
        "version": 1,
        "setup_cmd": "./setup.sh",
        "hooks": {
            "guard": "HTTPCORE_VERIF",
            "enable": "no source hooks are needed: checks import httpcore from /repo's working tree (sys.path[0]=/repo, or $VERIF_REPO) "
                      "and observe it through the public NetworkBackend interface; the guard name is reserved",
            "baseline_off_cmd": "cd /repo && /venv/bin/python -m pytest -ra -q -p no:cacheprovider --timeout=900 --continue-on-collection-errors",
            "source_commits": [],
            "add_only": True,
        },
        "engines": [
            {"name": "atheris-c15", "path": "fuzz/c15_fuzz.py", "serves_properties": ["C15"],
             "kind_free_text": "Atheris (libFuzzer) coverage-guided fuzz target for C15 (thorough tier); findings are written as replayable case files and re-checked through the Hypothesis-layer oracle"},
            {"name": "simnet-hypothesis", "path": "vf/", "serves_properties": sorted(CHECKS),
             "kind_free_text": "Hypothesis-generated and enumerated scenarios executed against the real httpcore on a simulated "
                               "network (vf/simnet.py) with independent peer models (vf/peers) and explicit oracles (vf/props)"},
            {"name": "realnet-hypothesis", "path": "vf/realnet.py", "serves_properties": ["C02", "C06", "C15", "C16", "C18"],
             "kind_free_text": "Hypothesis-generated scenarios with real network faults executed through httpcore's own sync/anyio/trio "
                               "backends over loopback TCP with real TLS against the same peer models (vf/props/real.py)"},
        ],
        "checks": checks,
        "notes": "Property-based testing / fuzzing only. Known genuine defects: known_findings.json. Replay: ./check <ID> --replay <file>.",
        "not_applicable": [{"property_id": pid, "reason": na.get(pid, "check not built yet (work in progress; see DESIGN.md section 7)")}
                           for pid in ids if pid not in CHECKS],
    }
    out = os.path.join(HERE, "MANIFEST.json")
    with open(out, "w") as f:
        json.dump(manifest, f, indent=1)
        f.write("\n")
    try:
        import jsonschema

        schema = json.load(open("/root/.vp/MANIFEST.schema.json"))
        jsonschema.validate(manifest, schema)
        es = json.load(open("/root/.vp/EVIDENCE.schema.json"))
        for c in checks:
            p = os.path.join(HERE, c["evidence_file"])
            if os.path.exists(p):
                ev = json.load(open(p))
                jsonschema.validate(ev, es)
                if ev["level"] != c["level_claimed"]["category"]:
                    print("LEVEL MISMATCH", c["property_id"])
            else:
                print("no evidence yet for", c["property_id"])
        print("MANIFEST.json valid;", len(checks), "checks,", len(manifest["not_applicable"]), "not applicable")
    except ImportError:
        print("written (jsonschema not importable: not validated)")


if __name__ == "__main__":
    main()
