#!/usr/bin/env python3
"""tools/mkknown.py <PROP> <finding-id> [layer]: search the enumerated cases of a property for the first case whose violation
matches the named open finding and write it to the finding's replay path (run with /venv/bin/python, PYTHONPATH=/verif)."""
import importlib, json, os, sys
sys.path.insert(0, os.path.dirname(os.path.dirname(os.path.abspath(__file__))))
from vf.common import jsonable, unjson
from vf.runner import load_known, _sig_match

prop_id, fid = sys.argv[1], sys.argv[2]
layer_name = sys.argv[3] if len(sys.argv) > 3 else None
prop = importlib.import_module(f"vf.props.{prop_id.lower()}").PROP
f = next(x for x in load_known() if x["id"] == fid)
pats = f.get("signatures") or [f["signature"]]
for layer in prop.layers:
    if layer.kind != "enum" or (layer_name and layer.name != layer_name):
        continue
    for case in layer.cases("thorough"):
        case = unjson(jsonable(case))
        out = layer.execute(case)
        hit = [v for v in out.violations if any(_sig_match(p, v["sig"]) for p in pats)]
        if hit:
            path = os.path.join(os.path.dirname(os.path.dirname(os.path.abspath(__file__))), f["replay"])
            os.makedirs(os.path.dirname(path), exist_ok=True)
            json.dump({"property": prop_id, "layer": layer.name, "seed": 0, "case": jsonable(case), "violations": hit}, open(path, "w"), indent=1, sort_keys=True)
            print("wrote", path, hit[0]["msg"][:200])
            sys.exit(0)
print("no enumerated case matches", fid)
sys.exit(1)
