#!/usr/bin/env python3
"""tools/mkmutant.py <name> <relative file> <old> <new> [<file> <old> <new> ...]
Creates mutants/<name>.patch: replaces the first occurrence of <old> by <new> in the file; for files under
httpcore/_async the sync twin is patched too (old/new translated with the repository's unasync_line)."""
import difflib, importlib.util, os, sys

REPO = "/repo"
spec = importlib.util.spec_from_file_location("ua", os.path.join(REPO, "scripts/unasync.py"))
ua = importlib.util.module_from_spec(spec); spec.loader.exec_module(ua)

def tr(s):
    return "".join(ua.unasync_line(l) for l in s.splitlines(True))

name = sys.argv[1]
args = sys.argv[2:]
out = []
for i in range(0, len(args), 3):
    rel, old, new = args[i:i + 3]
    old = old.encode().decode("unicode_escape"); new = new.encode().decode("unicode_escape")
    targets = [(rel, old, new)]
    if "/_async/" in rel:
        targets.append((rel.replace("/_async/", "/_sync/"), tr(old), tr(new)))
    for r, o, n in targets:
        src = open(os.path.join(REPO, r)).read()
        if o not in src:
            sys.exit(f"pattern not found in {r}: {o!r}")
        dst = src.replace(o, n, 1)
        out += list(difflib.unified_diff(src.splitlines(True), dst.splitlines(True), "a/" + r, "b/" + r))
path = os.path.join(os.path.dirname(os.path.dirname(os.path.abspath(__file__))), "mutants", name + ".patch")
open(path, "w").write("".join(out))
print("wrote", path)
