#!/bin/bash
# tools/mutant.sh <patch> <ID> [ID...]  - sensitivity self-test: apply a patch to a scratch copy of /repo
# (outside /repo and /verif), run the quick tier of the named checks against it, expect exit 1, clean up.
set -u
PATCH="$(realpath "$1")"; shift
HERE="$(cd "$(dirname "$0")/.." && pwd)"
SCR="$(mktemp -d /tmp/vfmut.XXXXXX)"
trap 'rm -rf "$SCR"' EXIT
rsync -a --exclude .git --exclude '__pycache__' /repo/ "$SCR/repo/"
( cd "$SCR/repo" && patch -p1 -s < "$PATCH" ) || { echo "MUTANT patch does not apply: $PATCH"; exit 3; }
rc_all=0
for ID in "$@"; do
  out="$(cd "$HERE" && VERIF_REPO="$SCR/repo" VERIF_OUT="$SCR/out" ./check "$ID" --tier "${TIER:-quick}" 2>&1)"
  rc=$?
  v="$(echo "$out" | grep -c '^VIOLATION')"
  echo "MUTANT $(basename "$PATCH") check=$ID exit=$rc violations=$v $(echo "$out" | grep -m1 '^violation' | cut -c1-260)"
  if [ "${SHOW:-0}" = 1 ]; then echo "$out" | tail -15; fi
  [ $rc -eq 1 ] || rc_all=1
done
exit $rc_all
