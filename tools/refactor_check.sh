#!/bin/bash
# tools/refactor_check.sh <refactors/<id>/patch.diff> : a behaviour-preserving change must leave every quick check quiet (exit 0).
# Prints one line per check; any exit != 0 is a false alarm (or a harness dependency on library internals) to be corrected.
cd "$(dirname "$0")/.."
tools/mutant.sh "$1" C01 C02 C03 C04 C05 C06 C07 C08 C09 C10 C11 C12 C13 C14 C15 C16 C17 C18 C19 C20 | sed "s#MUTANT patch.diff#REFACTOR $(basename $(dirname $1))#" | cut -c1-400
