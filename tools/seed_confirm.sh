#!/bin/bash
# tools/seed_confirm.sh <seed-id> <dir with patch.diff + demo.py [+ README.md]>
# Confirms a seeded change in a fresh scratch worktree of /repo (outside /repo and /verif): the patch applies, the repository's test suite passes with it,
# the demonstration fails with it and passes without it. On success copies the artefacts to /verif/seeded/<seed-id>/ and removes the worktree.
set -u
ID="$1"; SRC="$2"
WT="$(mktemp -d /tmp/seedchk.XXXXXX)"; rmdir "$WT"
git -C /repo worktree add -q --detach "$WT" HEAD || exit 3
cleanup() { git -C /repo worktree remove --force "$WT" 2>/dev/null; rm -rf "$WT"; }
trap cleanup EXIT
cd "$WT"
git apply "$SRC/patch.diff" || { echo "SEED $ID: patch does not apply to HEAD"; exit 3; }
/venv/bin/python scripts/unasync.py --check >/dev/null 2>&1; UA=$?
TESTS="$(PYTHONPATH="$WT" /venv/bin/python -m pytest -q -p no:cacheprovider --timeout=900 2>&1 | tail -1)"
WHICH="$(PYTHONPATH="$WT" /venv/bin/python -c 'import httpcore; print(httpcore.__file__)')"
PYTHONPATH="$WT" timeout 300 /venv/bin/python "$SRC/demo.py" >/tmp/seed_demo_with.log 2>&1; WITH=$?
git apply -R "$SRC/patch.diff"
PYTHONPATH="$WT" timeout 300 /venv/bin/python "$SRC/demo.py" >/tmp/seed_demo_without.log 2>&1; WITHOUT=$?
echo "SEED $ID: imported=$WHICH unasync_check=$UA tests='$TESTS' demo_with_patch_exit=$WITH demo_without_patch_exit=$WITHOUT"
if [ "$WITH" -ne 0 ] && [ "$WITHOUT" -eq 0 ] && echo "$TESTS" | grep -q "214 passed"; then
  mkdir -p "/verif/seeded/$ID"
  cp "$SRC/patch.diff" "$SRC/demo.py" "/verif/seeded/$ID/"
  [ -f "$SRC/README.md" ] && cp "$SRC/README.md" "/verif/seeded/$ID/"
  echo "{\"tests\": \"$TESTS\", \"unasync_check_exit\": $UA, \"demo_with_patch_exit\": $WITH, \"demo_without_patch_exit\": $WITHOUT}" > "/verif/seeded/$ID/confirm.json"
  echo "SEED $ID: CONFIRMED -> /verif/seeded/$ID"
  exit 0
fi
echo "SEED $ID: NOT confirmed"; tail -5 /tmp/seed_demo_with.log; exit 1
