#!/usr/bin/env python3
"""tools/survey.py <PROP> <layer> <n> [seed]: run n generated cases of a Hypothesis layer WITHOUT stopping at violations and print
the violation signatures bucketed by root-cause-sized key (used while triaging; not a registered check)."""
import collections, importlib, json, os, sys
sys.path.insert(0, os.path.dirname(os.path.dirname(os.path.abspath(__file__))))
from hypothesis import HealthCheck, Phase, given, seed, settings
from vf.common import jsonable, unjson
from vf.runner import load_known, match_known

prop = importlib.import_module(f"vf.props.{sys.argv[1].lower()}").PROP
layer = next(l for l in prop.layers if l.name == sys.argv[2])
n = int(sys.argv[3]); sd = int(sys.argv[4]) if len(sys.argv) > 4 else 1
known = load_known()
buckets = collections.Counter(); first = {}

@seed(sd)
@settings(max_examples=n, database=None, deadline=None, phases=[Phase.generate], suppress_health_check=list(HealthCheck))
@given(layer.strategy())
def t(case):
    case = unjson(jsonable(case))
    out = layer.execute(case)
    for v in out.violations:
        if match_known(v["sig"], known):
            continue
        k = json.dumps({a: b for a, b in v["sig"].items()}, sort_keys=True)
        buckets[k] += 1
        first.setdefault(k, (case, v["msg"]))
t()
for k, c in buckets.most_common():
    print(c, k)
    print("     ", first[k][1][:300])
if len(sys.argv) > 5:
    json.dump({k: jsonable(v[0]) for k, v in first.items()}, open(sys.argv[5], "w"), indent=1)
