"""Concurrent asyncio driver: N caller tasks on one AsyncConnectionPool over SimNet, every network op parked on a
gate, a harness-owned scheduler deciding which enabled action happens next (from a generated choice list), a
virtual clock, and a cancellation injector that cancels a caller exactly at its k-th suspension."""
from __future__ import annotations

import asyncio
import types

import anyio

from .common import import_httpcore
from .drivers import async_request, build_pool, exc_info
from .simnet import HarnessHang, World

httpcore = import_httpcore()

OPTIONAL = ("server_close", "advance")


class BusyLoop(Exception):
    pass


class VLoop(asyncio.SelectorEventLoop):
    def __init__(self, clock):
        super().__init__()
        self._vclock = clock

    def time(self):
        return self._vclock.now


@types.coroutine
def counted(coro, before, on_yield, on_throw=None):
    """Drive `coro`, calling before() on every resumption and on_yield() on every suspension."""
    value = exc = None
    while True:
        before()
        if on_throw is not None and exc is None and type(value).__name__ == "Error" and type(value).__module__.startswith("outcome"):
            # trio never throws into a task: it SENDS an outcome.Error that the innermost trap function unwraps (and raises) itself
            on_throw(value.error)
        try:
            msg = coro.throw(exc) if exc is not None else coro.send(value)
        except StopIteration as stop:
            return stop.value
        exc = None
        on_yield()
        try:
            value = yield msg
        except BaseException as e:  # cancellation or any thrown exception goes to the inner coroutine
            exc, value = e, None
            if on_throw is not None:
                on_throw(e)


def suspension_site(coro):
    """Innermost httpcore frame on the await chain of a suspended coroutine: (file:function, lineno)."""
    import os

    from .common import REPO

    root = os.path.realpath(os.path.join(REPO, "httpcore")) + os.sep
    site = None
    seen = 0
    cur = coro
    while cur is not None and seen < 200:
        seen += 1
        frame = getattr(cur, "cr_frame", None) or getattr(cur, "gi_frame", None) or getattr(cur, "ag_frame", None)
        if frame is not None:
            fn = os.path.realpath(frame.f_code.co_filename)
            if fn.startswith(root):
                rel = fn[len(root):].replace("_async/", "_x/").replace("_sync/", "_x/")
                if rel not in ("_synchronization.py", "_trace.py"):  # the function that *uses* the primitive is the site
                    site = (f"{rel}:{frame.f_code.co_name}", frame.f_lineno)
        nxt = getattr(cur, "cr_await", None) or getattr(cur, "gi_yieldfrom", None) or getattr(cur, "ag_await", None)
        if nxt is None and type(cur).__name__ in ("async_generator_asend", "async_generator_athrow"):
            import gc

            for ref in gc.get_referents(cur):
                if type(ref).__name__ == "async_generator":
                    nxt = ref
                    break
        cur = nxt
    return site


class Caller:
    def __init__(self, cid, program, cancel=None, start="auto"):
        self.id = cid
        self.program = program  # list of steps
        self.cancel = cancel  # {"style": "task"|"scope", "at": k}
        self.task = None
        self.state = "new"  # new | running | holding | done
        self.results: list[dict] = []
        self.susp = 0
        self.cancelled = False
        self.cancel_fired_at = None
        self.scope = None
        self.release = None  # asyncio.Event while holding
        self.error = None
        self.resumed = 0
        self.cancel_site = None
        self.in_shield_at_cancel = None
        self.sites: list = []
        self.release_after: list = []
        self.delivery_site = None
        self.in_shield_at_delivery = None
        self.parked_kind_at_cancel = None    # the network op this caller had parked at the gate when the cancellation was requested / delivered
        self.parked_kind_at_delivery = None


class Parked:
    __slots__ = ("kind", "pipe", "info", "fut", "caller", "seq")

    def __init__(self, kind, pipe, info, fut, caller, seq):
        self.kind, self.pipe, self.info, self.fut, self.caller, self.seq = kind, pipe, info, fut, caller, seq


class AioRun:
    def __init__(self, world: World, pool_cfg: dict, callers: list[Caller], *, choices=(), segs=(), allow_server_close=0,
                 advances=(), dsegs=(), on_quiescence=None, step_limit=4000, epilogue=None, gate_h2=True, late=(), bursts=(), policy=None):
        self.world = world
        self.pool_cfg = pool_cfg
        self.callers = callers
        self.choices = list(choices)
        self.ci = 0
        self.segs = list(segs)
        self.si = 0
        self.dsegs = list(dsegs)
        self.dsi = 0
        self.parked: list[Parked] = []
        self.seq = 0
        self.allow_server_close = allow_server_close
        self.advances = list(advances)
        self.on_quiescence = on_quiescence
        self.step_limit = step_limit
        self.epilogue = epilogue
        self.deadlock = None
        self.overflow = False
        self.steps = 0
        self.pool = None
        self.activity = 0
        self.log: list = []
        self.gate_h2 = gate_h2
        self.quiescences = 0
        self.shield_depth: dict = {}
        self.harness_error = None
        self.record_sites = False
        self.busy = None
        self.first_issue: dict = {}
        self.stuck_tasks: list = []
        self.shared_ssl_context = False
        self.pools: list = []
        self.epilogue_stuck = False
        # "the loop is late": after a progress action the clock jumps to the earliest pending deadline before anybody else runs, so that a wake-up
        # and a timeout fall into the same loop iteration (cyclic list of 0/1 choices; empty = never)
        self.late = list(late)
        self.li = 0
        self.policy = policy  # fallback order once the choice list is used up: None = oldest network op first; "reads-first" = what the server
        # has to say (emit, deliver) and reads before any write, so that peer actions are seen between two writes of an upload
        self.bursts = list(bursts)  # cyclic list: 0 = one action per period, k > 0 = also apply the (k-1)-th other enabled action
        self.bi = 0

    # ------------------------------------------------------------------ gate
    async def gate(self, kind, pipe, info):
        self.activity += 1
        self.first_issue.setdefault(self.world.current_actor, self.world.clock.now)  # when a caller's first network op was *issued*
        if kind == "closed":
            await asyncio.sleep(0)
            return None
        fut = self.loop.create_future()
        self.seq += 1
        p = Parked(kind, pipe, info, fut, self.world.current_actor, self.seq)
        self.parked.append(p)
        if not hasattr(self, "in_gate"):
            self.in_gate = {}
        actor = self.world.current_actor
        self.in_gate[actor] = kind  # until the caller has actually resumed from this operation (the scheduler may have completed it already)
        try:
            return await fut
        finally:
            self.in_gate.pop(actor, None)
            if p in self.parked:
                self.parked.remove(p)

    # ------------------------------------------------------------------ callers
    async def _step(self, caller: Caller, step: dict):
        pool = self.pools[step.get("pool", 0)]
        mode = step.get("mode", "read_all")
        spec = dict(step["spec"])
        t0 = self.world.clock.now
        if mode == "read_all":
            spec.setdefault("api", "request")
            out = await async_request(pool, spec)
        elif mode == "hold":
            caller_ev = asyncio.Event()

            async def hook(resp):
                caller.release_after = step.get("release_after", [])
                caller.state = "holding"
                caller.release = caller_ev
                await caller_ev.wait()
                caller.state = "running"
                caller.release = None

            spec["api"] = "stream"
            spec["read"] = step.get("read", "all")
            spec["_on_response"] = hook
            out = await async_request(pool, spec)
        else:
            spec["api"] = "stream"
            spec["read"] = 0 if mode == "close_unread" else mode["read_chunks"]
            out = await async_request(pool, spec)
        out["t0"], out["t1"] = t0, self.world.clock.now
        out.pop("network_stream", None)
        return out

    async def _program(self, caller: Caller):
        for step in caller.program:
            out = await self._step(caller, step)
            out["tok"] = step.get("tok")
            caller.results.append(out)

    async def _caller_main(self, caller: Caller):
        caller.state = "running"
        world = self.world

        def before():
            world.current_actor = caller.id
            caller.resumed += 1
            self.activity += 1

        def on_yield():
            world.current_actor = None
            self._apply_pending_jump()
            caller.susp += 1
            if self.record_sites:
                caller.sites.append(suspension_site(caller.program_coro))
            c = caller.cancel
            if c is not None and caller.cancel_fired_at is None and caller.susp == c.get("at"):
                caller.cancel_fired_at = caller.susp
                caller.cancel_site = suspension_site(caller.program_coro)
                caller.in_shield_at_cancel = self.shield_depth.get(caller.id, 0) > 0
                caller.parked_kind_at_cancel = getattr(self, "in_gate", {}).get(caller.id)
                if c["style"] == "task":
                    caller.task.cancel()
                else:
                    caller.scope.cancel()

        def on_throw(e):
            if isinstance(e, asyncio.CancelledError) and caller.delivery_site is None and caller.cancel_fired_at is not None:
                caller.delivery_site = suspension_site(caller.program_coro)
                caller.in_shield_at_delivery = self.shield_depth.get(caller.id, 0) > 0
                caller.parked_kind_at_delivery = getattr(self, "in_gate", {}).get(caller.id)

        caller.program_coro = self._program(caller)
        try:
            if caller.cancel is not None and caller.cancel["style"] == "scope":
                with anyio.CancelScope() as scope:
                    caller.scope = scope
                    await counted(caller.program_coro, before, on_yield, on_throw)
                if scope.cancelled_caught:
                    caller.cancelled = True
            else:
                await counted(caller.program_coro, before, on_yield, on_throw)
        except asyncio.CancelledError as exc:
            caller.cancelled = True
            if caller.cancel_fired_at is None and not getattr(self, "winding_down", False):
                # nobody cancelled this caller: the cancellation it ends with was raised at it by the library (somebody else's, handed on)
                caller.spurious_cancel = f"{type(exc).__name__} raised in {exc_info(exc).get('inner')}"
        except HarnessHang as exc:
            caller.error = {"type": "HANG", "msg": str(exc)}
        except BaseException as exc:
            caller.error = exc_info(exc)
        finally:
            world.current_actor = None
            self._apply_pending_jump()
            caller.state = "done"
            self.activity += 1

    # ------------------------------------------------------------------ scheduler
    async def quiesce(self):
        loop = self.loop
        idle = 0
        spins = 0
        while idle < 2:
            before = self.activity
            await asyncio.sleep(0)
            spins += 1
            ready = [h for h in loop._ready if not h._cancelled and getattr(h._callback, "__name__", "") != "_deliver_cancellation"]
            if ready or self.activity != before:
                idle = 0
            else:
                idle += 1
            if spins > 20000:
                raise BusyLoop("the event loop never becomes quiescent: some task is spinning without waiting for anything")
        self.quiescences += 1

    def _h2_peers(self):
        res = []
        for p in self.world.pipes:
            if not p.open:
                continue
            leaf = p.peer.leaf()
            h2 = getattr(leaf, "h2", None)
            if h2 is not None and h2.gated:
                res.append((p, h2))
        return res

    def _timers(self):
        return [h for h in self.loop._scheduled if not h._cancelled]

    def enabled(self):
        acts = []
        for p in sorted(self.parked, key=lambda x: x.seq):
            if p.fut.done():
                continue
            if p.kind == "read":
                if p.pipe.readable or p.pipe.client_closed:
                    acts.append(("op", p))
            else:
                acts.append(("op", p))
        for pipe, h2 in self._h2_peers():
            for q in h2.emittable():
                acts.append(("emit", pipe, q))
        for pipe in self.world.pipes:
            if pipe.in_flight or pipe.eof_pending:
                acts.append(("deliver", pipe))
        for c in sorted(self.callers, key=lambda c: (not getattr(c, "start_first", False), c.id)):
            if c.state == "new":
                acts.append(("start", c))
            elif c.state == "holding" and c.release is not None and not c.release.is_set():
                if all(self.callers[j].state == "done" for j in c.release_after):
                    acts.append(("release", c))
        if self._timers():
            acts.append(("timer",))
        if self.allow_server_close > 0:
            for pipe in self.world.pipes:
                if pipe.open and not pipe.eof and self._server_idle(pipe):
                    acts.append(("server_close", pipe))
        if self.advances:
            acts.append(("advance", self.advances[0]))
        return acts

    def _server_idle(self, pipe):
        leaf = pipe.peer.leaf()
        exs = leaf.all_exchanges() if hasattr(leaf, "all_exchanges") else []
        if not exs:
            return False
        for ex in exs:
            if not ex["complete"] or ex["resp_end"] is None or pipe.delivered < ex["resp_end"]:
                return False
        return True

    def _choose(self, acts):
        if self.ci < len(self.choices):
            i = self.choices[self.ci] % len(acts)
            self.ci += 1
            return acts[i]
        # fair fallback: the oldest progress action first
        prog = [a for a in acts if a[0] not in OPTIONAL]
        if self.policy == "reads-first":
            first = [a for a in prog if a[0] in ("emit", "deliver") or (a[0] == "op" and a[1].kind == "read")]
            if first:
                return first[0]
        non_timer = [a for a in prog if a[0] != "timer"]
        return (non_timer or prog or acts)[0]

    def _dseg(self):
        if not self.dsegs:
            return None
        s = self.dsegs[self.dsi % len(self.dsegs)]
        self.dsi += 1
        return s or None

    def _seg(self):
        if not self.segs:
            return None
        s = self.segs[self.si % len(self.segs)]
        self.si += 1
        return s or None

    async def apply(self, act):
        kind = act[0]
        self.log.append((self.steps, kind) + tuple(getattr(a, "kind", None) or getattr(a, "id", None) or (a if isinstance(a, (int, float, str)) else None) for a in act[1:]))
        if kind == "op":
            p = act[1]
            if p in self.parked:
                self.parked.remove(p)
            if not p.fut.done():
                p.fut.set_result(self._seg() if p.kind == "read" else None)
        elif kind == "emit":
            act[1].peer.leaf().h2.emit(act[2])
        elif kind == "deliver":
            act[1].deliver(self._dseg())
        elif kind == "start":
            c = act[1]
            c.state = "running"
            c.task = self.loop.create_task(self._caller_main(c))
        elif kind == "release":
            act[1].release.set()
        elif kind == "timer":
            t = min(h._when for h in self._timers())
            if t > self.world.clock.now:
                self.world.clock.now = t
        elif kind == "server_close":
            self.allow_server_close -= 1
            act[1].server_close()
        if kind in ("op", "emit", "deliver", "release", "server_close") and self.late:
            late = self.late[self.li % len(self.late)]
            self.li += 1
            timers = self._timers()
            if late and timers:
                t = min(h._when for h in timers)
                if t > self.world.clock.now:
                    self.world.clock.now = t
                    self._jumped_in_step = self.steps
                    self.log.append((self.steps, "late-loop", t))
        if kind == "advance":
            # time does not jump over a deadline: stop at the earliest timer, keep the remainder for later
            dt = self.advances.pop(0)
            now = self.world.clock.now
            timers = self._timers()
            if timers:
                t = min(h._when for h in timers)
                if now < t < now + dt:
                    self.advances.insert(0, now + dt - t)
                    dt = t - now
            self.world.clock.advance(dt)

    async def main(self):
        self.loop = asyncio.get_running_loop()
        self.world.agate = self.gate
        self.world.h2_gated = self.gate_h2
        self.world.deliver_gated = True
        self._install_shield_probe()
        try:
            if isinstance(self.pool_cfg, list):
                # several pools in one process, optionally sharing ONE ssl context object (a common application set-up)
                from .simnet import FakeSSLContext

                shared = FakeSSLContext("origin-ctx") if self.shared_ssl_context else None
                self.pools = [build_pool(self.world, c, sync=False, ssl_context=shared) for c in self.pool_cfg]
                self.pool = self.pools[0]
            else:
                self.pool = build_pool(self.world, self.pool_cfg, sync=False)
                self.pools = [self.pool]
            while True:
                try:
                    await self.quiesce()
                except BusyLoop as exc:
                    self.overflow = True
                    self.busy = str(exc)
                    break
                if self.on_quiescence is not None:
                    self.on_quiescence(self)
                acts = self.enabled()
                unfinished = [c for c in self.callers if c.state != "done"]
                progress = [a for a in acts if a[0] not in OPTIONAL]
                if not unfinished:
                    break
                if not progress:
                    self.deadlock = {"blocked": [(c.id, c.state) for c in unfinished],
                                     "parked": [(p.kind, p.pipe.id if p.pipe else None, p.caller) for p in self.parked]}
                    break
                self.steps += 1
                if self.steps > self.step_limit:
                    self.overflow = True
                    break
                await self.apply(self._choose(acts))
                if self.bursts:
                    # two things may happen "at once": a second action is applied before anybody runs, so that two callers are runnable in the same
                    # period and interleave at their own suspension points (not only at network operations)
                    b = self.bursts[self.bi % len(self.bursts)]
                    self.bi += 1
                    if b:
                        more = [a for a in self.enabled() if a[0] in ("op", "start", "release", "deliver", "emit")]
                        if more:
                            self.steps += 1
                            await self.apply(more[(b - 1) % len(more)])
            # ---- wind down: nothing is gated any more
            self.world.agate = None
            self.world.h2_gated = False
            self.world.deliver_gated = False
            for pipe in self.world.pipes:
                pipe.deliver()
            for pipe, h2 in self._h2_peers():
                h2.gated = False
            for p in list(self.parked):
                if not p.fut.done():
                    p.fut.cancel()
            self.winding_down = True
            for c in self.callers:
                if c.task is not None and not c.task.done():
                    c.task.cancel()
            # give cancelled callers a bounded number of loop iterations to unwind; a task that does not finish (it waits, shielded,
            # for something nobody will ever provide) is abandoned and reported, never waited for with the real clock
            for _ in range(2000):
                if all(c.task is None or c.task.done() for c in self.callers):
                    break
                await asyncio.sleep(0)
            self.stuck_tasks = [c.id for c in self.callers if c.task is not None and not c.task.done()]
            for c in self.callers:
                if c.task is not None and c.task.done() and not c.task.cancelled():
                    c.task.exception()  # mark as retrieved
            if self.epilogue is not None:
                # the epilogue runs ungated; if it blocks (e.g. on a lock a stuck task still holds) it is abandoned after a bounded number of
                # loop iterations instead of hanging the harness on the real clock
                et = self.loop.create_task(self.epilogue(self))
                for _ in range(50000):
                    if et.done():
                        break
                    await asyncio.sleep(0)
                if not et.done():
                    self.epilogue_stuck = True
                    et.cancel()
                    for _ in range(200):
                        if et.done():
                            break
                        await asyncio.sleep(0)
                elif et.exception() is not None:
                    raise et.exception()
        finally:
            self._remove_shield_probe()

    def _on_assigned_by_other(self, actor):
        caller = next((c for c in self.callers if c.id == actor), None)
        if caller is None or caller.cancel is None or caller.cancel.get("on_assign") is None or caller.cancel_fired_at is not None:
            return
        caller.assigned_by_other = getattr(caller, "assigned_by_other", 0) + 1
        if caller.assigned_by_other != caller.cancel["on_assign"] or caller.task is None or caller.task.done():
            return
        caller.cancel_fired_at = caller.susp
        caller.cancel_site = suspension_site(caller.program_coro)
        caller.in_shield_at_cancel = self.shield_depth.get(caller.id, 0) > 0
        caller.parked_kind_at_cancel = getattr(self, "in_gate", {}).get(caller.id)
        caller.cancelled_on_assign = True
        if caller.cancel["style"] == "task":
            caller.task.cancel()
        else:
            caller.scope.cancel()

    def _apply_pending_jump(self):
        if not getattr(self, "_jump_pending", False):
            return
        self._jump_pending = False
        if getattr(self, "_jumped_in_step", None) == self.steps:
            return  # one jump per scheduler step: what the first one made due (timeouts, their clean-up) runs before time moves again
        self._jumped_in_step = self.steps
        timers = self._timers()
        t = min(h._when for h in timers) if timers else None
        if t is not None and t > self.world.clock.now:
            self.world.clock.now = t
            self.log.append((self.steps, "late-loop", t))

    # ---- track whether a caller is inside an AsyncShieldCancellation block (diagnosis / signatures)
    def _install_shield_probe(self):
        from httpcore import _synchronization as sync_mod

        cls = sync_mod.AsyncShieldCancellation
        self._orig_enter, self._orig_exit = cls.__enter__, cls.__exit__
        run = self

        def enter(s):
            a = run.world.current_actor
            run.shield_depth[a] = run.shield_depth.get(a, 0) + 1
            s._vf_actor = a
            return run._orig_enter(s)

        def exit_(s, *args):
            a = getattr(s, "_vf_actor", None)
            run.shield_depth[a] = run.shield_depth.get(a, 1) - 1
            return run._orig_exit(s, *args)

        cls.__enter__, cls.__exit__ = enter, exit_
        self._shield_cls = cls
        # "late loop" at the finest grain: time may pass right after a pool event has been set, before the woken waiter runs, so that its
        # wake-up and its deadline fall into the same loop iteration
        ev_cls = sync_mod.AsyncEvent
        self._orig_event_set = ev_cls.set

        def set_(ev):
            run._orig_event_set(ev)
            if not run.late:
                return
            late = run.late[run.li % len(run.late)]
            run.li += 1
            if late:
                # time passes "right after" the event is set - for everybody who runs LATER. The task that is running now finishes its
                # synchronous step on the old clock (otherwise the moment at which it reports its own result would be distorted): the jump
                # is applied when it suspends or ends
                run._jump_pending = True

        ev_cls.set = set_
        self._event_cls = ev_cls
        # "cancelled while being served": a caller may be cancelled at the very moment ANOTHER task hands its queued request a connection
        # (cancel = {"on_assign": n}: at the n-th such hand-over), i.e. after the wake-up was issued and before the woken caller has run
        from httpcore._async import connection_pool as pool_mod
        req_cls = getattr(pool_mod, "AsyncPoolRequest", None)
        self._req_cls = None
        if req_cls is not None and hasattr(req_cls, "assign_to_connection"):
            self._req_cls = req_cls
            self._orig_req_init, self._orig_req_assign = req_cls.__init__, req_cls.assign_to_connection

            def init_(pr, *a, **k):
                run._orig_req_init(pr, *a, **k)
                pr._vf_actor = run.world.current_actor

            def assign_(pr, connection):
                run._orig_req_assign(pr, connection)
                actor = getattr(pr, "_vf_actor", None)
                if connection is not None and actor is not None and actor != run.world.current_actor:
                    run._on_assigned_by_other(actor)

            req_cls.__init__, req_cls.assign_to_connection = init_, assign_

    def _remove_shield_probe(self):
        self._shield_cls.__enter__, self._shield_cls.__exit__ = self._orig_enter, self._orig_exit
        self._event_cls.set = self._orig_event_set
        if getattr(self, "_req_cls", None) is not None:
            self._req_cls.__init__, self._req_cls.assign_to_connection = self._orig_req_init, self._orig_req_assign

    def run(self):
        from .simnet import patched_time

        loop = VLoop(self.world.clock)
        try:
            with patched_time(self.world.clock):
                loop.run_until_complete(self.main())
        except BaseException as exc:
            self.harness_error = exc
            raise
        finally:
            try:
                pending = [t for t in asyncio.all_tasks(loop) if not t.done()]
                for t in pending:
                    t.cancel()
                if pending:
                    async def _drain():
                        for _ in range(500):
                            if all(t.done() for t in pending):
                                break
                            await asyncio.sleep(0)
                    loop.run_until_complete(_drain())
                    for t in pending:
                        if not t.done():
                            t._log_destroy_pending = False
            except BaseException:
                pass
            loop.close()
        return self
