"""Shared small types for the verification framework (no dependency on httpcore)."""
from __future__ import annotations

import hashlib
import json
import os
import sys
import typing as t

REPO = os.environ.get("VERIF_REPO", "/repo")
VERIF = os.path.dirname(os.path.dirname(os.path.abspath(__file__)))


def import_httpcore():
    """Import httpcore from the working tree under test and make sure that is what we got."""
    if sys.path[0] != REPO:
        sys.path.insert(0, REPO)
    import httpcore  # noqa

    here = os.path.realpath(os.path.dirname(httpcore.__file__))
    want = os.path.realpath(os.path.join(REPO, "httpcore"))
    if here != want:
        raise HarnessError(f"httpcore imported from {here}, expected {want}")
    return httpcore


class HarnessError(Exception):
    """Something is wrong with the machinery itself: exit code 2, never a VIOLATION."""


class ViolationFound(Exception):
    """Raised inside a Hypothesis test when an unlisted violation was observed."""

    def __init__(self, violations):
        super().__init__("; ".join(v["msg"] for v in violations)[:2000])
        self.violations = violations


def V(prop: str, kind: str, msg: str, **sig) -> dict:
    """A violation record. `sig` is the categorical, root-cause sized signature."""
    s = {"property": prop, "kind": kind}
    s.update(sig)
    return {"sig": s, "msg": msg}


class Outcome:
    __slots__ = ("violations", "tags", "nontrivial", "key", "info", "metrics", "replay")

    def __init__(self, violations=None, tags=None, nontrivial=False, key=None, info=None, metrics=None, replay=None):
        self.replay = replay  # optional (layer name, case): what to write into the replay file instead of this case
        self.metrics: dict = dict(metrics or {})  # integer counters summed over all cases of the run
        self.violations: list[dict] = list(violations or [])
        self.tags: list[str] = list(tags or [])
        self.nontrivial: bool = nontrivial
        self.key = key  # structural identity of the case for distinct counting (None -> hash of case)
        self.info = info  # small JSON-able summary shown with samples


def jsonable(x):
    if isinstance(x, (bytes, bytearray)):
        return {"$b": bytes(x).decode("latin-1")}
    if isinstance(x, dict):
        return {str(k): jsonable(v) for k, v in x.items()}
    if isinstance(x, (list, tuple)):
        return [jsonable(v) for v in x]
    if isinstance(x, (set, frozenset)):
        return sorted(jsonable(v) for v in x)
    if isinstance(x, (str, int, float, bool)) or x is None:
        return x
    return repr(x)


def unjson(x):
    if isinstance(x, dict):
        if set(x.keys()) == {"$b"}:
            return x["$b"].encode("latin-1")
        return {k: unjson(v) for k, v in x.items()}
    if isinstance(x, list):
        return [unjson(v) for v in x]
    return x


def stable_hash(x) -> int:
    data = json.dumps(jsonable(x), sort_keys=True, separators=(",", ":")).encode()
    return int.from_bytes(hashlib.blake2b(data, digest_size=8).digest(), "big")


def short(x, n=400):
    """Abbreviate a JSON-able value for evidence samples."""
    if isinstance(x, dict):
        if set(x.keys()) == {"$b"}:
            s = x["$b"]
            return {"$b": s if len(s) <= 80 else s[:60] + f"...(+{len(s) - 60} bytes)"}
        return {k: short(v, n) for k, v in x.items()}
    if isinstance(x, list):
        if len(x) > 24:
            return [short(v, n) for v in x[:20]] + [f"...(+{len(x) - 20} items)"]
        return [short(v, n) for v in x]
    if isinstance(x, str) and len(x) > n:
        return x[: n - 20] + f"...(+{len(x) - n + 20} chars)"
    return x
