"""Inline drivers: build pools on SimNet and issue requests through the sync and the async API.

A *request spec* is a JSON-able dict:
  {"method", "url", "headers": [[n, v], ...] | None, "content": None | bytes | {"chunks": [bytes, ...]},
   "extensions": {...}, "api": "request" | "stream" | "handle", "read": "all" | int (chunks to read) ,
   "ext_target": bytes | None, "timeouts": {...} | None, "sni": str | None}
The *outcome* is a dict with status/headers/body/extensions or the exception that reached the caller.
"""
from __future__ import annotations

import asyncio
import os
import traceback

from .common import REPO, import_httpcore
from .simnet import AsyncSimBackend, FakeSSLContext, HarnessHang, SimBackend, World

httpcore = import_httpcore()

DOCUMENTED = (httpcore.TimeoutException, httpcore.NetworkError, httpcore.ProtocolError, httpcore.ProxyError,
              httpcore.UnsupportedProtocol)

_HTTPCORE_DIR = os.path.realpath(os.path.join(REPO, "httpcore")) + os.sep


def exc_info(exc: BaseException) -> dict:
    tp = type(exc)
    frames = traceback.extract_tb(exc.__traceback__)
    inner = None
    for fr in frames:
        fn = os.path.realpath(fr.filename)
        if fn.startswith(_HTTPCORE_DIR):
            rel = fn[len(_HTTPCORE_DIR):].replace("_sync/", "_x/").replace("_async/", "_x/")
            name = fr.name
            inner = f"{rel}:{name}"
    mod = tp.__module__ or ""
    return {"type": f"{mod}.{tp.__qualname__}", "name": tp.__name__, "documented": isinstance(exc, DOCUMENTED),
            "msg": str(exc)[:300], "inner": inner, "base": isinstance(exc, Exception)}


def norm_name(s: str) -> str:
    """Normalise async/sync naming differences (the unasync table) for differential comparison."""
    for a, b in (("handle_async_request", "handle_request"), ("aclose", "close"), ("Async", ""), ("aread", "read"),
                 ("aiter_stream", "iter_stream"), ("__aiter__", "__iter__"), ("__aenter__", "__enter__"),
                 ("__aexit__", "__exit__")):
        s = s.replace(a, b)
    return s


def build_pool(world: World, cfg: dict | None, *, sync: bool):
    cfg = dict(cfg or {})
    proxy = None
    p = cfg.get("proxy")
    if p:
        auth = tuple(p["auth"]) if p.get("auth") else None
        headers = [tuple(h) for h in p["headers"]] if p.get("headers") else None
        pctx = FakeSSLContext("proxy-ctx") if str(p["url"]).startswith("https") else None
        proxy = httpcore.Proxy(url=p["url"], auth=auth, headers=headers, ssl_context=pctx)
    kw = dict(
        ssl_context=FakeSSLContext("origin-ctx"),
        proxy=proxy,
        max_connections=cfg.get("max_connections", 10),
        max_keepalive_connections=cfg.get("max_keepalive_connections", None),
        keepalive_expiry=cfg.get("keepalive_expiry", None),
        http1=cfg.get("http1", True),
        http2=cfg.get("http2", False),
        retries=cfg.get("retries", 0),
        local_address=cfg.get("local_address", None),
        uds=cfg.get("uds", None),
        socket_options=cfg.get("socket_options", None),
    )
    if sync:
        return httpcore.ConnectionPool(network_backend=SimBackend(world), **kw)
    return httpcore.AsyncConnectionPool(network_backend=AsyncSimBackend(world), **kw)


def _content_sync(c):
    if c is None or isinstance(c, (bytes, bytearray)):
        return None if c is None else bytes(c)
    chunks = [bytes(x) for x in c["chunks"]]

    def gen():
        for ch in chunks:
            yield ch

    return gen()


def _content_async(c):
    if c is None or isinstance(c, (bytes, bytearray)):
        return None if c is None else bytes(c)
    chunks = [bytes(x) for x in c["chunks"]]

    async def gen():
        for ch in chunks:
            yield ch

    return gen()


def _extensions(spec):
    ext = dict(spec.get("extensions") or {})
    if spec.get("timeouts") is not None:
        ext["timeout"] = dict(spec["timeouts"])
    if spec.get("sni"):
        ext["sni_hostname"] = spec["sni"]
    if spec.get("ext_target") is not None:
        ext["target"] = spec["ext_target"]
    return ext


def _headers(spec):
    h = spec.get("headers")
    if h is None:
        return None
    return [(n if isinstance(n, bytes) else str(n).encode("latin-1"), v if isinstance(v, bytes) else str(v).encode("latin-1")) for n, v in h]


def _resp_outcome(resp, body, chunks):
    ext = resp.extensions
    return {"status": resp.status, "headers": [(bytes(n), bytes(v)) for n, v in resp.headers], "body": body,
            "n_chunks": chunks, "http_version": ext.get("http_version"), "reason": ext.get("reason_phrase"),
            "stream_id": ext.get("stream_id"), "exc": None, "network_stream": ext.get("network_stream")}


def sync_request(pool, spec: dict) -> dict:
    api = spec.get("api", "request")
    read = spec.get("read", "all")
    try:
        if api == "request":
            resp = pool.request(spec["method"], spec["url"], headers=_headers(spec), content=_content_sync(spec.get("content")),
                                extensions=_extensions(spec))
            return _resp_outcome(resp, resp.content, None)
        if api == "stream":
            with pool.stream(spec["method"], spec["url"], headers=_headers(spec), content=_content_sync(spec.get("content")),
                             extensions=_extensions(spec)) as resp:
                parts = []
                hook = spec.get("_on_response")
                if hook:
                    hook(resp)
                if read == "all":
                    for part in resp.iter_stream():
                        parts.append(part)
                elif read:
                    it = resp.iter_stream()
                    for _ in range(read):
                        try:
                            parts.append(next(it))
                        except StopIteration:
                            break
                out = _resp_outcome(resp, b"".join(parts), len(parts))
                out["partial"] = read != "all"
            return out
        # api == "handle": a hand-made Request, no default headers
        req = httpcore.Request(spec["method"], spec["url"], headers=_headers(spec), content=_content_sync(spec.get("content")),
                               extensions=_extensions(spec))
        resp = pool.handle_request(req)
        try:
            body = resp.read()
        finally:
            resp.close()
        return _resp_outcome(resp, body, None)
    except HarnessHang as exc:
        return {"exc": {"type": "HANG", "name": "HANG", "documented": False, "msg": str(exc), "inner": None, "base": False}}
    except BaseException as exc:
        return {"exc": exc_info(exc)}


async def async_request(pool, spec: dict) -> dict:
    api = spec.get("api", "request")
    read = spec.get("read", "all")
    try:
        if api == "request":
            resp = await pool.request(spec["method"], spec["url"], headers=_headers(spec),
                                      content=_content_async(spec.get("content")), extensions=_extensions(spec))
            return _resp_outcome(resp, resp.content, None)
        if api == "stream":
            async with pool.stream(spec["method"], spec["url"], headers=_headers(spec),
                                   content=_content_async(spec.get("content")), extensions=_extensions(spec)) as resp:
                parts = []
                hook = spec.get("_on_response")
                if hook:
                    await hook(resp)
                if read == "all":
                    async for part in resp.aiter_stream():
                        parts.append(part)
                elif read:
                    it = resp.aiter_stream().__aiter__()
                    for _ in range(read):
                        try:
                            parts.append(await it.__anext__())
                        except StopAsyncIteration:
                            break
                out = _resp_outcome(resp, b"".join(parts), len(parts))
                out["partial"] = read != "all"
            return out
        req = httpcore.Request(spec["method"], spec["url"], headers=_headers(spec), content=_content_async(spec.get("content")),
                               extensions=_extensions(spec))
        resp = await pool.handle_async_request(req)
        try:
            body = await resp.aread()
        finally:
            await resp.aclose()
        return _resp_outcome(resp, body, None)
    except HarnessHang as exc:
        return {"exc": {"type": "HANG", "name": "HANG", "documented": False, "msg": str(exc), "inner": None, "base": False}}
    except (asyncio.CancelledError, GeneratorExit):
        raise
    except BaseException as exc:
        return {"exc": exc_info(exc)}


# ----------------------------------------------------------------------------- running coroutines inline

_LOOP = None


def run_async(coro):
    """Run a coroutine to completion on a per-process asyncio loop (inline mode: nothing really blocks)."""
    global _LOOP
    if _LOOP is None or _LOOP.is_closed():
        _LOOP = asyncio.new_event_loop()
    return _LOOP.run_until_complete(coro)


def run_trio(fn, *args):
    import trio

    return trio.run(fn, *args)
