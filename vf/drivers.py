"""Inline drivers: build pools on SimNet and issue requests through the sync and the async API.

A *request spec* is a JSON-able dict:
  {"method", "url", "headers": [[n, v], ...] | None, "content": None | bytes | {"chunks": [bytes, ...]},
   "extensions": {...}, "api": "request" | "stream" | "handle", "read": "all" | int (chunks to read) ,
   "ext_target": bytes | None, "timeouts": {...} | None, "sni": str | None}
The *outcome* is a dict with status/headers/body/extensions or the exception that reached the caller.
"""
from __future__ import annotations

import asyncio
import os
import traceback

from .common import REPO, import_httpcore
from .simnet import AsyncSimBackend, FakeSSLContext, HarnessHang, SimBackend, World

httpcore = import_httpcore()

DOCUMENTED = (httpcore.TimeoutException, httpcore.NetworkError, httpcore.ProtocolError, httpcore.ProxyError,
              httpcore.UnsupportedProtocol)

_HTTPCORE_DIR = os.path.realpath(os.path.join(REPO, "httpcore")) + os.sep


def exc_info(exc: BaseException) -> dict:
    tp = type(exc)
    frames = traceback.extract_tb(exc.__traceback__)
    inner = None
    for fr in frames:
        fn = os.path.realpath(fr.filename)
        if fn.startswith(_HTTPCORE_DIR):
            rel = fn[len(_HTTPCORE_DIR):].replace("_sync/", "_x/").replace("_async/", "_x/")
            name = fr.name
            inner = f"{rel}:{name}"
    mod = tp.__module__ or ""
    return {"type": f"{mod}.{tp.__qualname__}", "name": tp.__name__, "documented": isinstance(exc, DOCUMENTED),
            "msg": str(exc)[:300], "inner": inner, "base": isinstance(exc, Exception)}


def norm_name(s: str) -> str:
    """Normalise async/sync naming differences (the unasync table) for differential comparison."""
    for a, b in (("handle_async_request", "handle_request"), ("aclose", "close"), ("Async", ""), ("aread", "read"),
                 ("aiter_stream", "iter_stream"), ("__aiter__", "__iter__"), ("__aenter__", "__enter__"),
                 ("__aexit__", "__exit__")):
        s = s.replace(a, b)
    return s


def build_pool(world: World, cfg: dict | None, *, sync: bool, ssl_context=None):
    cfg = dict(cfg or {})
    proxy = None
    p = cfg.get("proxy")
    if p:
        auth = tuple(p["auth"]) if p.get("auth") else None
        headers = [tuple(h) for h in p["headers"]] if p.get("headers") else None
        pctx = FakeSSLContext("proxy-ctx") if str(p["url"]).startswith("https") else None
        proxy = httpcore.Proxy(url=p["url"], auth=auth, headers=headers, ssl_context=pctx)
    kw = dict(
        ssl_context=ssl_context if ssl_context is not None else FakeSSLContext("origin-ctx"),
        proxy=proxy,
        max_connections=cfg.get("max_connections", 10),
        max_keepalive_connections=cfg.get("max_keepalive_connections", None),
        keepalive_expiry=cfg.get("keepalive_expiry", None),
        http1=cfg.get("http1", True),
        http2=cfg.get("http2", False),
        retries=cfg.get("retries", 0),
        local_address=cfg.get("local_address", None),
        uds=cfg.get("uds", None),
        socket_options=cfg.get("socket_options", None),
    )
    if sync:
        return httpcore.ConnectionPool(network_backend=SimBackend(world), **kw)
    return httpcore.AsyncConnectionPool(network_backend=AsyncSimBackend(world), **kw)


def _content_sync(c):
    if c is None or isinstance(c, (bytes, bytearray)):
        return None if c is None else bytes(c)
    chunks = [bytes(x) for x in c["chunks"]]

    def gen():
        for ch in chunks:
            yield ch

    return gen()


def _content_async(c):
    if c is None or isinstance(c, (bytes, bytearray)):
        return None if c is None else bytes(c)
    chunks = [bytes(x) for x in c["chunks"]]

    async def gen():
        for ch in chunks:
            yield ch

    return gen()


def _extensions(spec, aio=False):
    ext = dict(spec.get("extensions") or {})
    if spec.get("trace_log") is not None:
        # the documented `trace` extension: a callback (plain for the sync API, a coroutine function for the async API) that is told every event
        log = spec["trace_log"]
        if aio:
            async def trace(name, info, _log=log):
                _log.append(name)
        else:
            def trace(name, info, _log=log):
                _log.append(name)
        ext["trace"] = trace
    if spec.get("timeouts_obj") is not None:
        ext["timeout"] = spec["timeouts_obj"]  # ONE caller-owned dict object used for several requests (no copy)
    elif spec.get("timeouts") is not None:
        ext["timeout"] = dict(spec["timeouts"])
    if spec.get("sni"):
        ext["sni_hostname"] = spec["sni"]
    if spec.get("ext_target") is not None:
        ext["target"] = spec["ext_target"]
    return ext


def _headers(spec):
    if spec.get("_headers_obj") is not None:
        return spec["_headers_obj"]  # the caller's own list object, passed through untouched (object identity matters)
    h = spec.get("headers")
    if h is None:
        return None
    return [(n if isinstance(n, bytes) else str(n).encode("latin-1"), v if isinstance(v, bytes) else str(v).encode("latin-1")) for n, v in h]


def _resp_outcome(resp, body, chunks):
    ext = resp.extensions
    return {"status": resp.status, "headers": [(bytes(n), bytes(v)) for n, v in resp.headers], "body": body,
            "n_chunks": chunks, "http_version": ext.get("http_version"), "reason": ext.get("reason_phrase"),
            "stream_id": ext.get("stream_id"), "exc": None, "network_stream": ext.get("network_stream")}


def sync_request(pool, spec: dict) -> dict:
    api = spec.get("api", "request")
    read = spec.get("read", "all")
    try:
        if api == "request":
            resp = pool.request(spec["method"], spec["url"], headers=_headers(spec), content=_content_sync(spec.get("content")),
                                extensions=_extensions(spec))
            return _resp_outcome(resp, resp.content, None)
        if api == "stream":
            with pool.stream(spec["method"], spec["url"], headers=_headers(spec), content=_content_sync(spec.get("content")),
                             extensions=_extensions(spec)) as resp:
                parts = []
                hook = spec.get("_on_response")
                if hook:
                    hook(resp)
                if read == "all":
                    for part in resp.iter_stream():
                        parts.append(part)
                elif read:
                    it = resp.iter_stream()
                    for _ in range(read):
                        try:
                            parts.append(next(it))
                        except StopIteration:
                            break
                if spec.get("then") == "read":
                    # a caller that mixes the two ways of consuming a response: iterate (some of) it, then read() - whatever that does
                    # (it is documented to raise once the stream has been consumed) must be the same in the sync and the async API
                    parts.append(b"|read:" + resp.read())
                elif spec.get("then") == "iter":
                    parts.append(b"|iter:" + b"".join(resp.iter_stream()))
                out = _resp_outcome(resp, b"".join(parts), len(parts))
                out["partial"] = read != "all"
            return out
        # api == "handle": a hand-made Request, no default headers
        req = httpcore.Request(spec["method"], spec["url"], headers=_headers(spec), content=_content_sync(spec.get("content")),
                               extensions=_extensions(spec))
        resp = pool.handle_request(req)
        try:
            body = resp.read()
        finally:
            resp.close()
        return _resp_outcome(resp, body, None)
    except HarnessHang as exc:
        return {"exc": {"type": "HANG", "name": "HANG", "documented": False, "msg": str(exc), "inner": None, "base": False}}
    except BaseException as exc:
        return {"exc": exc_info(exc)}


async def async_request(pool, spec: dict) -> dict:
    api = spec.get("api", "request")
    read = spec.get("read", "all")
    try:
        if api == "request":
            resp = await pool.request(spec["method"], spec["url"], headers=_headers(spec),
                                      content=_content_async(spec.get("content")), extensions=_extensions(spec, aio=True))
            return _resp_outcome(resp, resp.content, None)
        if api == "stream":
            async with pool.stream(spec["method"], spec["url"], headers=_headers(spec),
                                   content=_content_async(spec.get("content")), extensions=_extensions(spec, aio=True)) as resp:
                parts = []
                hook = spec.get("_on_response")
                if hook:
                    await hook(resp)
                if read == "all":
                    async for part in resp.aiter_stream():
                        parts.append(part)
                elif read:
                    it = resp.aiter_stream().__aiter__()
                    for _ in range(read):
                        try:
                            parts.append(await it.__anext__())
                        except StopAsyncIteration:
                            break
                if spec.get("then") == "read":
                    parts.append(b"|read:" + await resp.aread())
                elif spec.get("then") == "iter":
                    rest = []
                    async for part in resp.aiter_stream():
                        rest.append(part)
                    parts.append(b"|iter:" + b"".join(rest))
                out = _resp_outcome(resp, b"".join(parts), len(parts))
                out["partial"] = read != "all"
            return out
        req = httpcore.Request(spec["method"], spec["url"], headers=_headers(spec), content=_content_async(spec.get("content")),
                               extensions=_extensions(spec, aio=True))
        resp = await pool.handle_async_request(req)
        try:
            body = await resp.aread()
        finally:
            await resp.aclose()
        return _resp_outcome(resp, body, None)
    except HarnessHang as exc:
        return {"exc": {"type": "HANG", "name": "HANG", "documented": False, "msg": str(exc), "inner": None, "base": False}}
    except asyncio.CancelledError as exc:
        if exc.args and exc.args[0] == HANG_MSG:
            return {"exc": {"type": "HANG", "name": "HANG", "documented": False, "msg": "the caller was blocked for ever with nothing else runnable "
                            "(inline asyncio run)", "inner": exc_info(exc)["inner"], "base": False}}
        raise
    except GeneratorExit:
        raise
    except BaseException as exc:
        if type(exc).__name__ == "Cancelled" and (type(exc).__module__ or "").startswith("trio"):
            raise  # trio's cancellation must propagate to its scope
        return {"exc": exc_info(exc)}


# ----------------------------------------------------------------------------- running coroutines inline

_LOOP = None
HANG_MSG = "vf-hang"


class _InlineLoop(asyncio.SelectorEventLoop):
    """Inline asyncio loop with a virtual clock: when nothing is ready the clock jumps to the earliest timer; when nothing is ready and no
    timer exists the single caller is blocked for ever (a hang), which is reported instead of blocking in select()."""

    def __init__(self):
        super().__init__()
        self._vnow = 1000.0

    def time(self):
        return self._vnow


def run_async(coro):
    """Run a coroutine to completion on a per-process loop (inline mode: network ops never block, so a caller that waits for
    something with nothing else runnable waits for ever)."""
    global _LOOP
    if _LOOP is None or _LOOP.is_closed():
        _LOOP = _InlineLoop()
    import threading

    loop = _LOOP
    task = loop.create_task(coro)
    hang_sent = 0
    # the loop is stepped by hand (so that "nothing ready" can be seen before select() would block): mark it as the running loop
    # exactly as run_forever() does, otherwise sniffio / anyio cannot find the current event loop
    old_running = asyncio.events._get_running_loop()
    asyncio.events._set_running_loop(loop)
    loop._thread_id = threading.get_ident()
    try:
        while not task.done():
            if not loop._ready:
                timers = [h for h in loop._scheduled if not h._cancelled]
                if timers:
                    loop._vnow = max(loop._vnow, min(h._when for h in timers))
                else:
                    hang_sent += 1
                    if hang_sent > 5:
                        raise HarnessHang("inline asyncio caller is blocked for ever and does not react to cancellation")
                    task.cancel(HANG_MSG)  # async_request() turns this into a HANG outcome; the scenario then continues
            loop._run_once()
    finally:
        loop._thread_id = None
        asyncio.events._set_running_loop(old_running)
    return task.result()


# ----------------------------------------------------------------------------- inline stand-ins for threading.* in the sync classes

class _InlineThreading:
    """Single-threaded inline runs: an operation that would block can never be unblocked by anybody, so it raises HarnessHang at once
    (a timed Event.wait() returns False immediately: the timeout elapses with nobody to set the event). httpcore's own Lock / ThreadLock /
    Event / Semaphore wrapper classes stay the real code; only the stdlib objects underneath are replaced."""

    class Lock:
        def __init__(self):
            self._locked = False

        def acquire(self, blocking=True, timeout=-1):
            if self._locked:
                if not blocking:
                    return False
                raise HarnessHang("single caller blocks on a lock that is already held (self-deadlock)")
            self._locked = True
            return True

        def release(self):
            self._locked = False

        def locked(self):
            return self._locked

        __enter__ = acquire

        def __exit__(self, *a):
            self.release()

    RLock = Lock

    class Event:
        def __init__(self):
            self._flag = False

        def set(self):
            self._flag = True

        def is_set(self):
            return self._flag

        def clear(self):
            self._flag = False

        def wait(self, timeout=None):
            if self._flag:
                return True
            if timeout is None:
                raise HarnessHang("single caller waits for an event nobody can set")
            return False

    class Semaphore:
        def __init__(self, value=1):
            self._value = value

        def acquire(self, blocking=True, timeout=None):
            if self._value <= 0:
                if not blocking:
                    return False
                raise HarnessHang("single caller blocks on a semaphore with no permit left (self-deadlock)")
            self._value -= 1
            return True

        def release(self, n=1):
            self._value += n

    current_thread = staticmethod(__import__("threading").current_thread)


def install_inline_threading():
    import httpcore._synchronization as sync_mod

    if not isinstance(sync_mod.threading, _InlineThreading):
        sync_mod.threading = _InlineThreading()


install_inline_threading()


def run_trio_inline(fn, vclock):
    """Run `await fn()` as a trio task in inline mode (simulated network ops never block). The parent task spins and watches the run queue: a child
    that is blocked with nothing else runnable either waits for a trio deadline (the virtual clock jumps to it) or is blocked for ever - it is
    cancelled and the run is reported as a hang. Returns (value | None, hang: bool)."""
    import trio

    from .trio_run import _VClock, _deterministic_scheduling

    res = {"value": None, "hang": False}

    async def main():
        done = trio.Event()

        async def child():
            res["task"] = trio.lowlevel.current_task()
            try:
                res["value"] = await fn()
            finally:
                done.set()

        async with trio.open_nursery() as nursery:
            nursery.start_soon(child)
            idle = 0
            spins = 0
            while not done.is_set():
                await trio.lowlevel.cancel_shielded_checkpoint()
                spins += 1
                st = trio.lowlevel.current_statistics()
                # blocked = parked in an abortable wait (a task that merely passed a checkpoint is rescheduled and has no abort function); the run
                # queue alone is not enough: within one batch the child may simply run after the parent
                task = res.get("task")
                blocked = task is not None and getattr(task, "_abort_func", None) is not None
                idle = idle + 1 if (st.tasks_runnable == 0 and blocked) else 0
                if idle > 20:
                    if st.seconds_to_next_deadline != float("inf"):
                        vclock.now += max(0.0, st.seconds_to_next_deadline) + 1e-9
                        idle = 0
                        continue
                    res["hang"] = True
                    nursery.cancel_scope.cancel()
                    break
                if spins > 200_000_000:  # (a child that never blocks is the wall-clock watchdog's business; big cases take millions of spins)
                    raise HarnessHang("inline trio caller never finishes")

    _deterministic_scheduling()
    trio.run(main, clock=_VClock(vclock))
    return res["value"], res["hang"]
