"""Hypothesis strategies shared by the property modules. Sound first (only what the peers / the client are
documented to accept as well-formed), then as complete as practical. Everything is JSON-able."""
from __future__ import annotations

from hypothesis import strategies as st

TCHAR = "!#$%&'*+-.^_`|~0123456789abcdefghijklmnopqrstuvwxyzABCDEFGHIJKLMNOPQRSTUVWXYZ"
NAME_ALPHA = "abcdefghijklmnopqrstuvwxyzABCDEFGHIJKLMNOPQRSTUVWXYZ0123456789-_"
VALUE_ALPHA = "abcdefghijklmnopqrstuvwxyzABCDEFGHIJKLMNOPQRSTUVWXYZ0123456789-_.~!$&'()*+,;=:@/?%\"<>[]{}|^` "

RESERVED_NAMES = {"content-length", "transfer-encoding", "connection", "upgrade", "host", "x-tok", "keep-alive", "te",
                  "trailer", "proxy-connection", "proxy-authorization", "x-interim", "x-trailer", "expect", "cookie"}


def _name_ok(n: str) -> bool:
    return n.lower() not in RESERVED_NAMES


header_name = st.text(alphabet=NAME_ALPHA, min_size=1, max_size=10).map(lambda s: "X" + s if s[0] in "-_0123456789" else s).filter(_name_ok)


@st.composite
def header_value(draw, max_size=16):
    v = draw(st.text(alphabet=VALUE_ALPHA, min_size=0, max_size=max_size))
    return v.strip(" ")


@st.composite
def header_list(draw, max_size=5, lower=False):
    hs = [[draw(header_name), draw(header_value())] for _ in range(draw(st.integers(0, max_size)))]
    if hs and draw(st.booleans()):
        # duplicate a name (possibly in different case) somewhere else in the list
        n, v = hs[draw(st.integers(0, len(hs) - 1))]
        n2 = draw(st.sampled_from([n, n.upper(), n.lower(), n.swapcase()]))
        hs.insert(draw(st.integers(0, len(hs))), [n2, draw(header_value())])
    if lower:
        hs = [[n.lower(), v] for n, v in hs]
    return hs


def has_dups(hs) -> bool:
    names = [n.lower() for n, _ in hs]
    return len(set(names)) != len(names)


body_len = st.one_of(st.integers(0, 40), st.integers(0, 40), st.integers(0, 700), st.sampled_from([0, 1, 2, 1023, 1024, 4096]))
big_body_len = st.one_of(st.integers(60000, 70000), st.sampled_from([65535, 65536, 65537, 131072, 200000]))
status_final = st.one_of(st.sampled_from([200, 200, 201, 204, 206, 301, 304, 400, 404, 500, 503, 599]), st.integers(200, 599))
reason = st.text(alphabet="abcdefghijklmnopqrstuvwxyzABCDEFGHIJKLMNOPQRSTUVWXYZ -'", min_size=0, max_size=12).map(
    lambda s: s.strip(" "))


@st.composite
def h1_plans(draw, big=False):
    version = draw(st.sampled_from(["1.1", "1.1", "1.1", "1.0"]))
    framing = draw(st.sampled_from(["cl", "cl", "chunked", "chunked", "close"]))
    if version == "1.0" and framing == "chunked":
        framing = "cl"
    n = draw(big_body_len if big else body_len)
    plan = {"status": draw(status_final), "reason": draw(reason), "version": version,
            "headers": draw(header_list()), "framing": framing, "body_len": n,
            "interim": draw(st.lists(st.sampled_from([100, 102, 103, 199]), max_size=2)) if version == "1.1" else [],
            "conn_close": draw(st.sampled_from([False, False, False, True]))}
    if framing == "chunked":
        plan["chunks"] = draw(st.lists(st.one_of(st.integers(1, 20), st.integers(1, 5000)), min_size=1, max_size=4))
        plan["chunk_ext"] = draw(st.booleans())
        plan["trailers"] = draw(st.sampled_from([[], [], [["X-Trailer", "t"]]]))
    return plan


@st.composite
def h2_plans(draw, big=False):
    n = draw(big_body_len if big else body_len)
    plan = {"status": draw(status_final), "headers": draw(header_list(lower=True)), "body_len": n,
            "interim": draw(st.lists(st.sampled_from([100, 103]), max_size=2)),
            "h2_frames": draw(st.lists(st.one_of(st.integers(1, 30), st.integers(1, 16384)), min_size=1, max_size=4)),
            "h2_pad": draw(st.sampled_from([0, 0, 0, 1, 7, 200])),
            "h2_trailers": draw(st.sampled_from([False, False, False, True])),
            "h2_continuation": draw(st.sampled_from([0, 0, 1, 3])),
            "h2_priority": draw(st.sampled_from([False, False, True])),
            "h2_empty_data": draw(st.sampled_from([None, None, None, "leading", "trailing"]))}
    return plan


def cut_sets(n, max_cuts=6):
    """Drawn multi-cut segmentations of an n-byte stream."""
    if n <= 1:
        return st.just([])
    return st.lists(st.integers(1, n - 1), min_size=1, max_size=max_cuts, unique=True).map(sorted)


methods = st.sampled_from(["GET", "GET", "POST", "PUT", "DELETE", "PATCH", "OPTIONS", "HEAD"])
