"""Endpoint models behind SimNet pipes: origin (HTTP/1.1 or HTTP/2, auto-detected), HTTP proxy
(forwarding / CONNECT tunnel) and SOCKS5 server. All are deterministic functions of the configuration
and of the bytes received so far."""
from __future__ import annotations

from .h1 import H1RequestParser, build_h1_response, norm_plan, req_token

H2_PREFACE = b"PRI * HTTP/2.0\r\n\r\nSM\r\n\r\n"


class NetConfig:
    """Topology + server behaviour for one example.

    endpoints: {"host:port" | "uds:<path>": {"role": "origin"|"proxy"|"socks", "alpn": "h2"|"http/1.1"|None}}
    plans: {token: plan}; default_plan: plan used for any other token.
    proxy: {"status": 200, "reason": "...", "headers": [...], "leading": b""} - the CONNECT reply plan.
    socks: {"method": None|int, "auth_status": 0, "reply": 0, "atyp": 1, "raw_*": bytes overrides}
    h2: per-connection HTTP/2 server behaviour (see peers/h2.py)
    """

    def __init__(self, endpoints=None, default_endpoint=None, plans=None, default_plan=None, proxy=None,
                 socks=None, h2=None):
        self.endpoints = dict(endpoints or {})
        self.default_endpoint = default_endpoint or {"role": "origin", "alpn": "http/1.1"}
        self.plans = dict(plans or {})
        self.default_plan = default_plan or {}
        self.proxy = {"status": 200, "reason": "Connection established", "headers": [], "leading": b""}
        self.proxy.update(proxy or {})
        self.socks = {"method": None, "auth_status": 0, "reply": 0, "atyp": 1}
        self.socks.update(socks or {})
        self.h2 = dict(h2 or {})
        self.seen_tokens: set = set()  # tokens of requests any HTTP/2 server of this world has received (for reactive plans)
        self.deferred: list = []

    def endpoint(self, name: str) -> dict:
        spec = self.endpoints.get(name.lower())
        if spec is None:
            spec = self.default_endpoint
        return spec

    def plan(self, token):
        p = self.plans.get(token)
        if p is None:
            p = self.default_plan
        return norm_plan(p)

    def peer_factory(self, world, pipe):
        if pipe.kind == "uds":
            name = "uds:" + str(pipe.target)
        else:
            name = f"{pipe.target[0]}:{pipe.target[1]}"
        spec = self.endpoint(name)
        role = spec.get("role", "origin")
        if role == "socks":
            return SocksPeer(world, pipe, self, name, spec)
        return HttpPeer(world, pipe, self, name, spec, proxy=(role == "proxy"))


def select_alpn(pref, offered):
    if offered is None:
        return None
    if pref == "h2" and "h2" in offered:
        return "h2"
    if pref in ("h2", "http/1.1") and "http/1.1" in offered:
        return "http/1.1"
    return None


class HttpPeer:
    """An HTTP endpoint: origin, or proxy (absolute-form forwarding and CONNECT)."""

    def __init__(self, world, pipe, cfg: NetConfig, name, spec, proxy=False, via=None):
        self.world = world
        self.pipe = pipe
        self.cfg = cfg
        self.name = name  # the endpoint this peer *is* (host:port as established)
        self.spec = spec
        self.is_proxy = proxy
        self.via = via  # how the bytes reach us: None (direct) | ("connect", target) | ("socks", target)
        self.proto = None
        self.parser = H1RequestParser()
        self.h2 = None
        self.pending = bytearray()
        self.exchanges: list[dict] = []
        self.wire_violations: list[str] = []
        self.parse_errors: list[str] = []
        self.tls_seen: list[dict] = []
        self.inner = None  # peer spliced in after a successful CONNECT
        self.connects: list[dict] = []
        self.raw_in = bytearray()
        self.tunnel_plan = None
        self.closed_by_client = False

    # -- helpers for oracles
    def all_exchanges(self):
        out = list(self.exchanges)
        if self.h2 is not None:
            out += self.h2.exchanges
        if self.inner is not None:
            out += self.inner.all_exchanges()
        return out

    def leaf(self):
        return self.inner.leaf() if self.inner is not None else self

    # -- SimNet callbacks
    def on_tls(self, server_hostname, alpn_offered):
        if self.inner is not None:
            return self.inner.on_tls(server_hostname, alpn_offered)
        sel = select_alpn(self.spec.get("alpn", "http/1.1"), alpn_offered)
        self.tls_seen.append({"sni": server_hostname, "alpn": alpn_offered, "selected": sel,
                              "at_written": len(self.pipe.written)})
        if sel == "h2":
            self.proto = "h2"
        # otherwise the protocol is detected from the first bytes (a client with HTTP/1.1 disabled speaks HTTP/2 regardless)
        return sel

    def on_client_close(self):
        self.closed_by_client = True
        if self.inner is not None:
            self.inner.on_client_close()

    def on_data(self, data: bytes):
        if self.inner is not None:
            return self.inner.on_data(data)
        if self.proto is None:
            self.pending += data
            buf = bytes(self.pending)
            if H2_PREFACE.startswith(buf[:len(H2_PREFACE)]) and len(buf) < len(H2_PREFACE):
                return  # could still become the HTTP/2 preface
            self.proto = "h2" if buf.startswith(H2_PREFACE) else "h1"
            data = buf
            del self.pending[:]
        if self.proto == "h2":
            if self.h2 is None:
                from .h2 import H2Server

                self.h2 = H2Server(self.world, self.pipe, self.cfg, self)
            return self.h2.on_data(data)
        return self._h1_data(data)

    # -- HTTP/1.1
    def _h1_data(self, data):
        pipe = self.pipe
        if self.parser.state == "raw":
            self.raw_in += data
            if self.tunnel_plan and self.tunnel_plan.get("echo"):
                # "swapcase": an answer that does not depend on how the client's bytes were cut into segments (real sockets)
                pipe.server_send(bytes(data).swapcase() if self.tunnel_plan["echo"] == "swapcase" else b"E" + data)
            return
        if self.parser.at_boundary() and data:
            # first byte of a new request head: every earlier exchange must be over, both directions
            for ex in self.exchanges:
                if not ex["complete"]:
                    self.wire_violations.append(f"request started while request {ex['token']} was still incomplete")
                elif ex["resp_end"] is None:
                    self.wire_violations.append(f"request started before the response to {ex['token']} was produced")
                elif pipe.delivered < ex["resp_end"]:
                    self.wire_violations.append(
                        f"request started on pipe {pipe.id} although only {pipe.delivered} of {ex['resp_end']} response "
                        f"bytes (response to {ex['token']}) had been read by the client")
                elif ex["closes"]:
                    self.wire_violations.append(f"request started after the response to {ex['token']} announced close")
        start_off = len(pipe.written) - len(data)
        for ev in self.parser.feed(data):
            kind = ev[0]
            if kind == "head":
                req = ev[1]
                ex = {"token": req_token(req), "method": req["method"], "target": req["target"],
                      "version": req["version"], "headers": list(req["headers"]), "body": None, "framing": req["framing"],
                      "tls_depth": len(pipe.tls), "head_seq": self.world.seq, "complete": False, "resp_end": None,
                      "closes": False, "pipe": pipe.id, "proto": "h1", "peer": self.name, "via": self.via,
                      "proxy_hop": self.is_proxy, "req": req, "start_off": start_off}
                self.exchanges.append(ex)
                if self.cfg.plan(ex["token"]).get("respond_at") == "head" and req["method"] != b"CONNECT":
                    self._respond(ex)
            elif kind == "end":
                ex = self.exchanges[-1]
                ex["complete"] = True
                ex["body"] = bytes(ev[1]["body"])
                ex["n_chunks"] = ev[1]["n_chunks"]
                if ex["resp_end"] is None:
                    self._respond(ex)
            elif kind == "raw":
                self.raw_in += ev[1]
                if self.tunnel_plan and self.tunnel_plan.get("echo"):
                    pipe.server_send(bytes(ev[1]).swapcase() if self.tunnel_plan["echo"] == "swapcase" else b"E" + ev[1])
            elif kind == "error":
                self.parse_errors.append(ev[1])

    def _respond(self, ex):
        pipe = self.pipe
        method = ex["method"]
        if method == b"CONNECT" and self.is_proxy:
            return self._respond_connect(ex)
        plan = self.cfg.plan(ex["token"])
        wire, closes, marks = build_h1_response(plan, ex["token"], method)
        base = len(pipe.sent)
        ex["resp_start"] = base
        ex["marks"] = marks
        if "truncate_at" in plan and plan["truncate_at"] is not None:
            wire = wire[: plan["truncate_at"]]
            closes = True
        pipe.server_send(wire)
        ex["resp_end"] = base + len(wire)
        ex["closes"] = closes
        ex["plan"] = plan
        status = plan["status"]
        if status == 101 or (method == b"CONNECT" and 200 <= status < 300):
            self.parser.switch_to_raw()
            self.tunnel_plan = plan
            rest = self.parser.feed(b"")
            for ev in rest:
                if ev[0] == "raw":
                    self.raw_in += ev[1]
        if closes:
            if plan.get("close_notify_only"):
                pipe.server_close(hidden=True)
            else:
                pipe.server_close()
        elif plan.get("idle_close"):
            # the server ends the keep-alive connection right after a complete, properly framed response without announcing it
            # (an idle timeout on the server side): the client can only notice through the socket
            ex["idle_closed"] = True
            pipe.server_close()

    def _respond_connect(self, ex):
        pipe = self.pipe
        pp = self.cfg.proxy
        target = ex["target"]
        self.connects.append({"target": target, "headers": list(ex["headers"]), "seq": self.world.seq,
                              "tls_depth": len(pipe.tls)})
        if pp.get("raw") is not None:
            wire = bytes(pp["raw"])
        else:
            wire = b"HTTP/1.1 %d %s\r\n" % (pp["status"], pp["reason"].encode("latin-1"))
            for n, v in pp["headers"]:
                wire += (n.encode() if isinstance(n, str) else n) + b": " + (v.encode() if isinstance(v, str) else v) + b"\r\n"
            if not (200 <= pp["status"] < 300) and pp.get("body_len"):
                wire += b"Content-Length: %d\r\n" % pp["body_len"]
            wire += b"\r\n"
            if not (200 <= pp["status"] < 300) and pp.get("body_len"):
                wire += b"x" * pp["body_len"]
        base = len(pipe.sent)
        ex["resp_start"] = base
        ex["connect_reply"] = pp["status"]
        ok = pp.get("raw") is None and 200 <= pp["status"] < 300
        if ok:
            wire += bytes(pp.get("leading") or b"")
        pipe.server_send(wire)
        ex["resp_end"] = base + len(wire)
        ex["closes"] = False
        if ok:
            try:
                host, port = target.rsplit(b":", 1)
                name = f"{host.decode('latin-1').strip('[]')}:{int(port)}"
            except Exception:
                name = "unparsable:" + target.decode("latin-1")
            spec = self.cfg.endpoint(name)
            leftover = bytes(self.parser.buf)
            del self.parser.buf[:]
            self.parser.switch_to_raw()
            self.inner = HttpPeer(self.world, pipe, self.cfg, name, spec,
                                  proxy=False, via=("connect", name))
            pipe.neg_written = len(pipe.written) - len(leftover)
            pipe.neg_sent = len(pipe.sent)
            if leftover:
                self.inner.on_data(leftover)
        elif pp.get("close", True):
            pipe.server_close()


class SocksPeer:
    """RFC 1928 / RFC 1929 server model with an own parser."""

    def __init__(self, world, pipe, cfg: NetConfig, name, spec):
        self.world = world
        self.pipe = pipe
        self.cfg = cfg
        self.name = name
        self.spec = spec
        self.buf = bytearray()
        self.state = "greeting"
        self.greeting = None
        self.auth = None
        self.command = None
        self.errors: list[str] = []
        self.inner = None
        self.tls_seen = []
        self.early_http = False
        self.log: list[tuple] = []
        pipe.noseg_until = 1 << 60

    def all_exchanges(self):
        return self.inner.all_exchanges() if self.inner is not None else []

    def leaf(self):
        return self.inner.leaf() if self.inner is not None else self

    def on_tls(self, server_hostname, alpn_offered):
        if self.inner is not None:
            return self.inner.on_tls(server_hostname, alpn_offered)
        self.tls_seen.append({"sni": server_hostname, "alpn": alpn_offered, "selected": None, "premature": True})
        return None

    def on_client_close(self):
        if self.inner is not None:
            self.inner.on_client_close()

    def on_data(self, data):
        if self.inner is not None:
            return self.inner.on_data(data)
        self.buf += data
        sp = self.cfg.socks
        pipe = self.pipe
        while True:
            b = self.buf
            if self.state == "greeting":
                if len(b) < 2 or len(b) < 2 + b[1]:
                    return
                if b[0] != 5:
                    self.errors.append(f"greeting version {b[0]}")
                    if bytes(b[:4]) in (b"GET ", b"POST", b"PRI ", b"HEAD"):
                        self.early_http = True
                    self.state = "dead"
                    return
                methods = list(b[2:2 + b[1]])
                del b[:2 + len(methods)]
                self.greeting = {"methods": methods, "seq": self.world.seq}
                if sp.get("raw_method") is not None:
                    pipe.server_send(bytes(sp["raw_method"]))
                    chosen = sp.get("method")
                else:
                    chosen = sp["method"] if sp["method"] is not None else (methods[0] if methods else 0xFF)
                    pipe.server_send(bytes([5, chosen]))
                self.log.append(("method", chosen))
                if chosen == 2:
                    self.state = "auth"
                elif chosen == 0:
                    self.state = "command"
                else:
                    self.state = "refused"
            elif self.state == "auth":
                if len(b) < 2 or len(b) < 2 + b[1] + 1 or len(b) < 2 + b[1] + 1 + b[2 + b[1]]:
                    return
                if b[0] != 1:
                    self.errors.append(f"auth version {b[0]}")
                ulen = b[1]
                user = bytes(b[2:2 + ulen])
                plen = b[2 + ulen]
                pw = bytes(b[3 + ulen:3 + ulen + plen])
                del b[:3 + ulen + plen]
                self.auth = {"username": user, "password": pw, "seq": self.world.seq}
                if sp.get("raw_auth") is not None:
                    pipe.server_send(bytes(sp["raw_auth"]))
                else:
                    pipe.server_send(bytes([1, sp["auth_status"]]))
                self.log.append(("auth", sp["auth_status"]))
                self.state = "command" if sp["auth_status"] == 0 and sp.get("raw_auth") is None else "refused"
            elif self.state == "command":
                if len(b) < 5:
                    return
                atyp = b[3]
                if atyp == 1:
                    need = 4 + 4 + 2
                elif atyp == 4:
                    need = 4 + 16 + 2
                elif atyp == 3:
                    need = 4 + 1 + b[4] + 2
                else:
                    self.errors.append(f"command atyp {atyp}")
                    self.state = "dead"
                    return
                if len(b) < need:
                    return
                msg = bytes(b[:need])
                del b[:need]
                if atyp == 1:
                    host = ".".join(str(x) for x in msg[4:8])
                elif atyp == 4:
                    import ipaddress

                    host = str(ipaddress.IPv6Address(msg[4:20]))
                else:
                    host = msg[5:5 + msg[4]].decode("latin-1")
                port = int.from_bytes(msg[-2:], "big")
                self.command = {"ver": msg[0], "cmd": msg[1], "rsv": msg[2], "atyp": atyp, "host": host, "port": port,
                                "seq": self.world.seq, "raw": msg}
                if msg[0] != 5 or msg[2] != 0:
                    self.errors.append(f"bad command header {msg[:3]!r}")
                if sp.get("raw_reply") is not None:
                    pipe.server_send(bytes(sp["raw_reply"]))
                    ok = False
                else:
                    rep = sp["reply"]
                    at = sp.get("atyp", 1)
                    if at == 1:
                        addr = bytes([1, 0, 0, 0, 0])
                    elif at == 4:
                        addr = bytes([4]) + bytes(16)
                    else:
                        addr = bytes([3, 4]) + b"bind"
                    pipe.server_send(bytes([5, rep, 0]) + addr + bytes([0x1F, 0x90]))
                    ok = rep == 0
                self.log.append(("reply", sp.get("reply")))
                if ok:
                    name = f"{host}:{port}"
                    spec = self.cfg.endpoint(name)
                    leftover = bytes(b)
                    del b[:]
                    self.inner = HttpPeer(self.world, pipe, self.cfg, name, spec, proxy=False, via=("socks", name))
                    self.state = "spliced"
                    pipe.neg_written = len(pipe.written) - len(leftover)
                    pipe.neg_sent = len(pipe.sent)
                    pipe.noseg_until = len(pipe.sent)
                    if leftover:
                        self.inner.on_data(leftover)
                    return
                self.state = "refused"
            else:
                # refused / dead: anything further is recorded
                if b:
                    self.log.append(("after-refusal", bytes(b)))
                    del b[:]
                return
