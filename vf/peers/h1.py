"""HTTP/1.1 peer model: an own strict incremental request parser (deliberately not h11, which httpcore
uses to produce those bytes) and a response builder driven by per-request server plans."""
from __future__ import annotations

import re

TOKEN_CHARS = set(b"!#$%&'*+-.^_`|~0123456789abcdefghijklmnopqrstuvwxyzABCDEFGHIJKLMNOPQRSTUVWXYZ")
_TOK_IN_TARGET = re.compile(rb"/t/([A-Za-z0-9_-]+)")


def is_token(b: bytes) -> bool:
    return len(b) > 0 and all(c in TOKEN_CHARS for c in b)


def body_bytes(token: str, n: int) -> bytes:
    pat = ("[" + token + "]").encode()
    reps = n // len(pat) + 1
    return (pat * reps)[:n]


class ParseError(Exception):
    pass


class H1RequestParser:
    """feed(data) -> list of events:
    ("head", req) / ("data", bytes) / ("end", req) / ("raw", bytes) once switched to tunnel mode.
    req = {"method","target","version","headers":[(name,value)],"body":bytearray,"framing"}
    """

    MAX_HEAD = 1 << 20

    def __init__(self):
        self.buf = bytearray()
        self.state = "head"  # head | body-cl | chunk-size | chunk-data | chunk-crlf | trailers | raw | error
        self.cur = None
        self.remaining = 0
        self.error = None
        self.n_requests = 0

    def at_boundary(self) -> bool:
        return self.state == "head" and not self.buf

    def switch_to_raw(self):
        self.state = "raw"

    def feed(self, data: bytes):
        events = []
        self.buf += data
        try:
            while True:
                if self.state == "raw":
                    if self.buf:
                        events.append(("raw", bytes(self.buf)))
                        del self.buf[:]
                    break
                if self.state == "error":
                    break
                if not self._step(events):
                    break
        except ParseError as exc:
            self.error = str(exc)
            self.state = "error"
            events.append(("error", str(exc)))
        return events

    def _line(self):
        i = self.buf.find(b"\r\n")
        if i < 0:
            if len(self.buf) > self.MAX_HEAD:
                raise ParseError("line too long")
            return None
        line = bytes(self.buf[:i])
        del self.buf[: i + 2]
        return line

    def _step(self, events) -> bool:
        st = self.state
        if st == "head":
            i = self.buf.find(b"\r\n\r\n")
            if i < 0:
                if len(self.buf) > self.MAX_HEAD:
                    raise ParseError("head too long")
                return False
            head = bytes(self.buf[:i])
            del self.buf[: i + 4]
            lines = head.split(b"\r\n")
            parts = lines[0].split(b" ")
            if len(parts) != 3:
                raise ParseError(f"bad request line {lines[0]!r}")
            method, target, version = parts
            if not is_token(method):
                raise ParseError(f"bad method {method!r}")
            if not target or any(c <= 0x20 or c == 0x7F for c in target):
                raise ParseError(f"bad target {target!r}")
            if version not in (b"HTTP/1.1", b"HTTP/1.0"):
                raise ParseError(f"bad version {version!r}")
            headers = []
            for ln in lines[1:]:
                if b":" not in ln:
                    raise ParseError(f"header line without colon {ln!r}")
                name, value = ln.split(b":", 1)
                if not is_token(name):
                    raise ParseError(f"bad header name {name!r}")
                value = value.strip(b" \t")
                if any(c in (0x0D, 0x0A, 0x00) for c in value):
                    raise ParseError(f"bad header value {value!r}")
                headers.append((name, value))
            req = {"method": method, "target": target, "version": version, "headers": headers,
                   "body": bytearray(), "raw_head": head + b"\r\n\r\n", "n_chunks": 0}
            te = [v for n, v in headers if n.lower() == b"transfer-encoding"]
            cl = [v for n, v in headers if n.lower() == b"content-length"]
            self.cur = req
            self.n_requests += 1
            if te:
                codings = [c.strip().lower() for v in te for c in v.split(b",")]
                if codings[-1:] != [b"chunked"]:
                    raise ParseError(f"transfer-encoding without final chunked: {te!r}")
                req["framing"] = "chunked"
                self.state = "chunk-size"
            elif cl:
                if len(set(cl)) != 1 or not cl[0].isdigit():
                    raise ParseError(f"bad content-length {cl!r}")
                req["framing"] = "cl"
                self.remaining = int(cl[0])
                self.state = "body-cl"
            else:
                req["framing"] = "none"
                self.remaining = 0
                self.state = "body-cl"
            events.append(("head", req))
            if self.state == "body-cl" and self.remaining == 0:
                self._end(events)
            return True
        if st == "body-cl":
            if not self.buf:
                return False
            n = min(len(self.buf), self.remaining)
            chunk = bytes(self.buf[:n])
            del self.buf[:n]
            self.cur["body"] += chunk
            self.remaining -= n
            events.append(("data", chunk))
            if self.remaining == 0:
                self._end(events)
            return True
        if st == "chunk-size":
            line = self._line()
            if line is None:
                return False
            size = line.split(b";", 1)[0].strip()
            if not size or any(c not in b"0123456789abcdefABCDEF" for c in size):
                raise ParseError(f"bad chunk size line {line!r}")
            self.remaining = int(size, 16)
            self.cur["n_chunks"] += 1
            self.state = "chunk-data" if self.remaining else "trailers"
            return True
        if st == "chunk-data":
            if not self.buf:
                return False
            n = min(len(self.buf), self.remaining)
            chunk = bytes(self.buf[:n])
            del self.buf[:n]
            self.cur["body"] += chunk
            self.remaining -= n
            events.append(("data", chunk))
            if self.remaining == 0:
                self.state = "chunk-crlf"
            return True
        if st == "chunk-crlf":
            if len(self.buf) < 2:
                return False
            if bytes(self.buf[:2]) != b"\r\n":
                raise ParseError("missing CRLF after chunk data")
            del self.buf[:2]
            self.state = "chunk-size"
            return True
        if st == "trailers":
            line = self._line()
            if line is None:
                return False
            if line == b"":
                self._end(events)
            return True
        raise ParseError(f"bad state {st}")

    def _end(self, events):
        req = self.cur
        self.cur = None
        self.state = "head"
        events.append(("end", req))


def req_token(req) -> str | None:
    for n, v in req["headers"]:
        if n.lower() == b"x-tok":
            return v.decode("latin-1")
    m = _TOK_IN_TARGET.search(req["target"])
    if m:
        return m.group(1).decode()
    return None


# ----------------------------------------------------------------------------- responses

DEFAULT_PLAN = {"status": 200, "reason": "OK", "version": "1.1", "headers": [], "framing": "cl", "body_len": 12,
                "chunks": [], "chunk_ext": False, "interim": [], "conn_close": False, "keep_alive_10": False,
                "trailers": [], "leading": b"", "echo": False}

BODILESS = (204, 304)


def norm_plan(plan: dict | None) -> dict:
    p = dict(DEFAULT_PLAN)
    if plan:
        p.update(plan)
    return p


def response_body(plan, token, method: bytes) -> bytes:
    if method == b"HEAD" or plan["status"] in BODILESS or 100 <= plan["status"] < 200:
        return b""
    if "body" in plan and plan["body"] is not None:
        return bytes(plan["body"])
    return body_bytes(token or "anon", plan["body_len"])


def truth_h1(plan, token, method: bytes) -> dict:
    """What the caller must observe for this plan."""
    plan = norm_plan(plan)
    body = response_body(plan, token, method)
    headers = _resp_headers(plan, token, method, body)
    return {"status": plan["status"], "reason": plan["reason"].encode("latin-1"),
            "version": b"HTTP/" + plan["version"].encode(), "headers": headers, "body": body}


def _resp_headers(plan, token, method, body):
    headers = [(n.encode("latin-1") if isinstance(n, str) else bytes(n),
                v.encode("latin-1") if isinstance(v, str) else bytes(v)) for n, v in plan["headers"]]
    if token is not None:
        headers.append((b"X-Tok", token.encode("latin-1")))
    status = plan["status"]
    framing = plan["framing"]
    if status in (101,) or (method == b"CONNECT" and 200 <= status < 300):
        pass
    elif status in BODILESS:
        pass
    elif framing == "cl":
        n = len(body) if method != b"HEAD" else plan["body_len"]
        headers.append((b"Content-Length", str(n).encode()))
    elif framing == "chunked":
        headers.append((b"Transfer-Encoding", b"chunked"))
    if plan["conn_close"]:
        headers.append((b"Connection", b"close"))
    if plan["version"] == "1.0" and plan["keep_alive_10"]:
        headers.append((b"Connection", b"keep-alive"))
    return headers


def build_h1_response(plan, token, method: bytes):
    """Return (wire bytes, closes_after: bool, marks) for one final response (with interim 1xx)."""
    plan = norm_plan(plan)
    out = bytearray()
    marks = {}
    for code in plan["interim"]:
        out += b"HTTP/1.1 %d Interim\r\nX-Interim: %d\r\n\r\n" % (code, code)
    body = response_body(plan, token, method)
    headers = _resp_headers(plan, token, method, body)
    marks["head_start"] = len(out)
    out += b"HTTP/" + plan["version"].encode() + b" " + str(plan["status"]).encode() + b" " + plan["reason"].encode("latin-1") + b"\r\n"
    for n, v in headers:
        out += n + b": " + v + b"\r\n"
    out += b"\r\n"
    marks["head_end"] = len(out)
    status = plan["status"]
    tunnel = status == 101 or (method == b"CONNECT" and 200 <= status < 300)
    closes = False
    structural = []  # offsets strictly inside structural tokens (CRLF pairs, chunk-size lines)
    if tunnel:
        out += bytes(plan["leading"])
    elif method == b"HEAD" or status in BODILESS:
        pass
    elif plan["framing"] == "cl":
        out += body
    elif plan["framing"] == "chunked":
        sizes = [s for s in plan["chunks"] if s > 0] or [max(1, len(body))]
        pos = 0
        i = 0
        while pos < len(body):
            s = min(sizes[i % len(sizes)], len(body) - pos)
            i += 1
            line = b"%x" % s
            if plan["chunk_ext"]:
                line += b";ext=%d" % i
            structural.append(len(out) + 1)
            out += line + b"\r\n"
            structural.append(len(out) - 1)
            out += body[pos:pos + s] + b"\r\n"
            structural.append(len(out) - 1)
            pos += s
        out += b"0\r\n"
        structural.append(len(out) - 1)
        for n, v in plan["trailers"]:
            out += n.encode() + b": " + v.encode() + b"\r\n"
        out += b"\r\n"
        structural.append(len(out) - 1)
    elif plan["framing"] == "close":
        out += body
        closes = True
    if plan["conn_close"] or (plan["version"] == "1.0" and not plan["keep_alive_10"]):
        closes = True
    if tunnel:
        closes = False
    marks["end"] = len(out)
    marks["structural"] = structural
    marks["body_framed"] = not (plan["framing"] == "close" and not tunnel and method != b"HEAD" and status not in BODILESS)
    return bytes(out), closes, marks
