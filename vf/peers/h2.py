"""HTTP/2 origin model built directly on hyperframe (frame codec) and hpack - not on `h2`, which is the
library under httpcore. Keeps its *own* stream table and flow-control accounting in both directions and
emits response frames one emission unit at a time so that a scheduler can interleave streams."""
from __future__ import annotations

import hpack
import hyperframe.frame as hf

from .h1 import norm_plan, response_body

PREFACE = b"PRI * HTTP/2.0\r\n\r\nSM\r\n\r\n"
S_HEADER_TABLE_SIZE, S_ENABLE_PUSH, S_MAX_CONCURRENT_STREAMS, S_INITIAL_WINDOW_SIZE, S_MAX_FRAME_SIZE, S_MAX_HEADER_LIST_SIZE = 1, 2, 3, 4, 5, 6

DEFAULT_H2 = {
    "initial_settings": {"3": 100},  # sent right after the client preface; None = never send SETTINGS
    "wu_mode": "auto",  # how the server returns credit for uploaded DATA: auto | tiny | stream_first | conn_first | lazy
    "wu_inc": 0,
    "script": [],
    "order": "seq",  # inline emission order across streams: seq | rr | rev
    "respond_at": "end",  # end | head
}


def truth_h2(plan, token, method: bytes) -> dict:
    plan = norm_plan(plan)
    body = response_body(plan, token, method)
    headers = _h2_resp_headers(plan, token)
    return {"status": plan["status"], "headers": headers, "body": body, "version": b"HTTP/2"}


def _h2_resp_headers(plan, token):
    hs = []
    for n, v in plan["headers"]:
        n = n.encode("latin-1") if isinstance(n, str) else bytes(n)
        v = v.encode("latin-1") if isinstance(v, str) else bytes(v)
        hs.append((n.lower(), v))
    if token is not None:
        hs.append((b"x-tok", token.encode("latin-1")))
    return hs


class H2Server:
    def __init__(self, world, pipe, cfg, owner):
        self.world = world
        self.pipe = pipe
        self.net = cfg
        self.owner = owner
        self.cfg = dict(DEFAULT_H2)
        self.cfg.update(cfg.h2 or {})
        self.buf = bytearray()
        self.preface_done = False
        self.decoder = hpack.Decoder()
        self.decoder.max_header_list_size = 1 << 20
        self.encoder = hpack.Encoder()
        self.streams: dict[int, dict] = {}
        self.exchanges: list[dict] = []
        self.violations: list[tuple] = []  # (kind, message) - client broke a rule we account for ourselves
        self.errors: list[str] = []
        self.client_settings = {S_HEADER_TABLE_SIZE: 4096, S_ENABLE_PUSH: 1, S_INITIAL_WINDOW_SIZE: 65535,
                                S_MAX_FRAME_SIZE: 16384}
        self.acked = {S_INITIAL_WINDOW_SIZE: 65535, S_MAX_FRAME_SIZE: 16384}  # our settings the client has ACKed
        self.pending_settings: list[dict] = []
        self.lenient_frame_size = 16384
        self.mcs_acked = None  # MAX_CONCURRENT_STREAMS in force (ACKed); None = none announced+ACKed yet
        self.mcs_history: list[tuple] = []
        self.recv_conn_window = 65535
        self.send_conn_window = 65535
        self.outq: dict[int, list] = {0: []}
        self.pings_unacked = 0   # PINGs this server has sent and the client has not acknowledged yet
        self.ping_gate = False   # a server that holds back stream frames until its PING is acknowledged (RTT probe / liveness check)
        self.rr = 0
        self.header_block = None  # (sid, flags, bytearray) while CONTINUATION is pending
        self.counters: dict = {}
        self.goaway_sent = None
        self.goaway_processed_seq = None
        self.client_goaway = None
        self.max_open_seen = 0
        self.gated = bool(getattr(world, "h2_gated", False))  # concurrent drivers: frames are emitted by scheduler actions
        self.log: list[tuple] = []
        self.total_sent_data = 0
        self.client_wu: list[tuple] = []
        self.last_client_sid = 0
        self.lowered_below_inflight = False
        self.mcs_sent: list = []

    # ------------------------------------------------------------------ receiving
    def on_data(self, data: bytes):
        self.buf += data
        if not self.preface_done:
            if len(self.buf) < len(PREFACE):
                return
            if bytes(self.buf[:len(PREFACE)]) != PREFACE:
                self.errors.append("bad client preface")
                return
            del self.buf[:len(PREFACE)]
            self.preface_done = True
            if self.cfg["initial_settings"] is not None:
                self._send_settings(self.cfg["initial_settings"])
        while len(self.buf) >= 9:
            try:
                frame, length = hf.Frame.parse_frame_header(memoryview(bytes(self.buf[:9])))
            except Exception as exc:
                self.errors.append(f"unparsable frame header: {exc!r}")
                del self.buf[:]
                return
            if len(self.buf) < 9 + length:
                break
            body = bytes(self.buf[9:9 + length])
            del self.buf[:9 + length]
            try:
                frame.parse_body(memoryview(body))
            except Exception as exc:
                self.errors.append(f"unparsable {type(frame).__name__} body: {exc!r}")
                continue
            self._frame(frame, length)
        self._ensure_credit()
        self.pump()

    def _count(self, event):
        n = self.counters.get(event, 0)
        self.counters[event] = n + 1
        for item in self.cfg["script"]:
            w = item["when"]
            if w["event"] == event and w.get("n", 0) == n and not item.get("_done"):
                item["_done"] = True
                for act in item["do"]:
                    self._action(act)

    def _frame(self, f, length):
        name = type(f).__name__
        sid = f.stream_id
        self.log.append(("recv", name, sid, length, self.world.seq))
        if self.header_block is not None and not isinstance(f, hf.ContinuationFrame):
            self.errors.append(f"{name} while a header block was open")
        if isinstance(f, hf.SettingsFrame):
            if "ACK" in f.flags:
                if not self.pending_settings:
                    self.errors.append("SETTINGS ACK without pending SETTINGS")
                    return
                st = self.pending_settings.pop(0)
                for k, v in st.items():
                    k = int(k)
                    if k == S_MAX_CONCURRENT_STREAMS:
                        self.mcs_acked = v
                        self.mcs_history.append((self.world.seq, v))
                    elif k == S_INITIAL_WINDOW_SIZE:
                        old = self.acked[S_INITIAL_WINDOW_SIZE]
                        self.acked[S_INITIAL_WINDOW_SIZE] = v
                        for s in self.streams.values():  # RFC 7540 6.9.2: every stream window moves by the difference
                            s["recv_window"] += v - old
                    elif k == S_MAX_FRAME_SIZE:
                        self.acked[S_MAX_FRAME_SIZE] = v
                        if not self.pending_settings:
                            self.lenient_frame_size = v
                self._count("settings_ack")
            else:
                for k, v in f.settings.items():
                    k = int(k)
                    if k == S_INITIAL_WINDOW_SIZE:
                        delta = v - self.client_settings[S_INITIAL_WINDOW_SIZE]
                        for s in self.streams.values():
                            s["send_window"] += delta
                    self.client_settings[k] = v
                ack = hf.SettingsFrame(0)
                ack.flags.add("ACK")
                self._enqueue(0, ack.serialize(), 0, "SETTINGS-ACK")
        elif isinstance(f, hf.WindowUpdateFrame):
            inc = f.window_increment
            self.client_wu.append((sid, inc, self.world.seq))
            if sid == 0:
                self.send_conn_window += inc
            elif sid in self.streams:
                self.streams[sid]["send_window"] += inc
        elif isinstance(f, hf.HeadersFrame):
            self.header_block = (sid, set(f.flags), bytearray(f.data))
            if "END_HEADERS" in f.flags:
                self._headers_done()
        elif isinstance(f, hf.ContinuationFrame):
            if self.header_block is None or self.header_block[0] != sid:
                self.errors.append("unexpected CONTINUATION")
                return
            self.header_block[2].extend(f.data)
            if "END_HEADERS" in f.flags:
                self._headers_done()
        elif isinstance(f, hf.DataFrame):
            st = self.streams.get(sid)
            flen = f.flow_controlled_length
            if self.goaway_sent is not None and sid > self.goaway_sent["last"]:
                # RFC 7540 6.8: the sender of GOAWAY ignores frames on streams above last-stream-id
                if st is not None:
                    st["ex"]["body"] += f.data
                    st["ex"]["data_frames"].append(len(f.data))
                    if "END_STREAM" in f.flags:
                        st["ex"]["end_stream_count"] += 1
                        st["ex"]["complete"] = True
                        st["ex"]["body"] = bytes(st["ex"]["body"])
                        st["closed_in"] = True
                return
            if flen > self.lenient_frame_size and flen > self.acked[S_MAX_FRAME_SIZE]:
                self.violations.append(("frame-size", f"DATA frame of {flen} bytes on stream {sid} exceeds MAX_FRAME_SIZE "
                                        f"{max(self.lenient_frame_size, self.acked[S_MAX_FRAME_SIZE])}"))
            if flen > 0 and self.recv_conn_window < flen:
                self.violations.append(("conn-window", f"DATA frame of {flen} bytes on stream {sid} while the connection window is {self.recv_conn_window}"))
            self.recv_conn_window -= flen
            if st is None or st["closed_in"]:
                if st is None or st.get("ended_by_client"):
                    self.violations.append(("data-on-closed", f"DATA on stream {sid} after the client had ended it (or never opened it)"))
                return  # (DATA racing with our own RST_STREAM is legitimate)
            if flen > 0 and st["recv_window"] + self._pending_window_leniency() < flen:
                self.violations.append(("stream-window", f"DATA frame of {flen} bytes on stream {sid} while its window is {st['recv_window']} "
                                        f"(+{self._pending_window_leniency()} for un-ACKed SETTINGS)"))
            st["recv_window"] -= flen
            st["ex"]["body"] += f.data
            st["ex"]["data_frames"].append(len(f.data))
            self._credit(sid, flen)
            self._count("data")
            if "END_STREAM" in f.flags:
                self._request_complete(sid)
        elif isinstance(f, hf.RstStreamFrame):
            st = self.streams.get(sid)
            if st is not None:
                st["closed_in"] = st["closed_out"] = True
                st["rst_by_client"] = f.error_code
                self.outq.pop(sid, None)
            self._count("client_rst")
        elif isinstance(f, hf.PingFrame):
            if "ACK" not in f.flags:
                pong = hf.PingFrame(0, opaque_data=f.opaque_data)
                pong.flags.add("ACK")
                self._enqueue(0, pong.serialize(), 0, "PING-ACK")
            else:
                self.pings_unacked = max(0, self.pings_unacked - 1)
                self._count("ping_ack")
        elif isinstance(f, hf.GoAwayFrame):
            self.client_goaway = (f.last_stream_id, f.error_code)
        elif isinstance(f, hf.PriorityFrame):
            pass
        else:
            self.errors.append(f"unexpected frame {name}")

    def _goaway_processed(self):
        """The caller that read the GOAWAY bytes has been resumed past that read (it issued a later op), or is the one writing now."""
        off = self.goaway_sent.get("sent_offset")
        if off is None:
            return False
        trace = self.world.trace
        reader = None
        for op in trace:
            if op["kind"] == "read" and op["pipe"] == self.pipe.id and op.get("n") and op["r_off"] + op["n"] >= off:
                reader = op
                break
        if reader is None:
            return False
        cur = trace[-1]  # the write op that delivers these HEADERS
        if cur["actor"] == reader["actor"]:
            return True
        return any(op["actor"] == reader["actor"] and op["seq"] > reader["seq"] for op in trace[-300:])

    def _open_count(self):
        return sum(1 for s in self.streams.values() if not (s["closed_in"] and s["closed_out"]))

    def _headers_done(self):
        sid, flags, block = self.header_block
        self.header_block = None
        try:
            headers = [(bytes(n), bytes(v)) for n, v in self.decoder.decode(bytes(block), raw=True)]
        except Exception as exc:
            self.errors.append(f"hpack decode failed: {exc!r}")
            return
        if sid in self.streams:
            st = self.streams[sid]
            if st.get("ended_by_client"):
                self.violations.append(("headers-on-closed", f"HEADERS on stream {sid} after the client had ended it"))
            st["ex"]["trailers"] = headers
            if "END_STREAM" in flags:
                self._request_complete(sid)
            return
        if sid % 2 == 0 or sid <= self.last_client_sid:
            self.violations.append(("stream-id", f"client opened stream {sid} after {self.last_client_sid}"))
        self.last_client_sid = max(self.last_client_sid, sid)
        open_before = self._open_count()
        limit = 1 if self.mcs_acked is None else min(self.mcs_acked, 100)
        if open_before + 1 > limit:
            self.violations.append(("max-concurrent-streams",
                                    f"stream {sid} opened while {open_before} streams were open; limit in force "
                                    f"{limit} (ACKed MAX_CONCURRENT_STREAMS={self.mcs_acked})"))
        if self.goaway_sent is not None and self._goaway_processed():
            self.violations.append(("new-stream-after-goaway", f"stream {sid} opened on pipe {self.pipe.id} after the client had processed "
                                    f"GOAWAY(last_stream_id={self.goaway_sent['last']})"))
        hd = dict(headers)
        token = None
        for n, v in headers:
            if n == b"x-tok":
                token = v.decode("latin-1")
        if token is None:
            import re

            m = re.search(rb"/t/([A-Za-z0-9_-]+)", hd.get(b":path", b""))
            if m:
                token = m.group(1).decode()
        ex = {"token": token, "method": hd.get(b":method", b""), "target": hd.get(b":path", b""), "headers": headers,
              "body": bytearray(), "sid": sid, "pipe": self.pipe.id, "proto": "h2", "complete": False,
              "tls_depth": len(self.pipe.tls), "head_seq": self.world.seq, "peer": self.owner.name, "via": self.owner.via,
              "proxy_hop": False, "data_frames": [], "end_stream_count": 0, "resp_end": None, "closes": False,
              "open_at_start": open_before + 1, "limit_at_start": limit, "refused": False}
        self.exchanges.append(ex)
        if token is not None:
            self.net.seen_tokens.add(token)
        self.streams[sid] = {"ex": ex, "recv_window": self.acked[S_INITIAL_WINDOW_SIZE],
                             "send_window": self.client_settings[S_INITIAL_WINDOW_SIZE], "closed_in": False,
                             "closed_out": False, "responded": False, "uncredited": 0}
        self.max_open_seen = max(self.max_open_seen, open_before + 1)
        if self.net.deferred:
            ready = [(srv, s_) for srv, s_ in self.net.deferred if srv.net.plan(srv.streams[s_]["ex"]["token"]).get("after_request") in self.net.seen_tokens]
            for item in ready:
                self.net.deferred.remove(item)
                srv, s_ = item
                if s_ in srv.streams and not srv.streams[s_]["responded"] and not srv.streams[s_]["closed_out"]:
                    srv._respond(s_)
                    if srv is not self:
                        srv.pump()
        if self.cfg.get("grant_on_headers"):
            self._wu(sid, int(self.cfg["grant_on_headers"]))
        self._count("headers")
        plan = self.net.plan(token)
        if ex["refused"] or (self.goaway_sent is not None and sid > self.goaway_sent["last"]):
            ex["refused"] = True
            if "END_STREAM" in flags:
                ex["end_stream_count"] += 1
                ex["complete"] = True
                ex["body"] = bytes(ex["body"])
                self.streams[sid]["closed_in"] = True
            self.streams[sid]["closed_out"] = True
            self.streams[sid]["responded"] = True
            return
        if "END_STREAM" in flags:
            self._request_complete(sid)
        elif plan.get("respond_at", self.cfg["respond_at"]) == "head":
            self._respond(sid)

    def _request_complete(self, sid):
        st = self.streams[sid]
        st["ex"]["end_stream_count"] += 1
        if st.get("ended_by_client"):
            self.violations.append(("double-end-stream", f"stream {sid} ended twice by the client"))
        st["closed_in"] = True
        st["ended_by_client"] = True
        st["ex"]["complete"] = True
        st["ex"]["body"] = bytes(st["ex"]["body"])
        self._count("request_complete")
        if not st["responded"]:
            self._respond(sid)

    # ------------------------------------------------------------------ credit for uploads
    def _credit(self, sid, flen):
        mode = self.cfg["wu_mode"]
        st = self.streams[sid]
        if mode == "none":
            return
        if mode == "auto":
            self._wu(0, flen)
            self._wu(sid, flen)
            return
        inc = max(1, int(self.cfg["wu_inc"] or 1))
        st["uncredited"] += flen
        self.counters["conn_uncredited"] = self.counters.get("conn_uncredited", 0) + flen
        if mode == "lazy":
            # return credit only when a window is exhausted
            if st["recv_window"] <= 0:
                self._wu(sid, st["uncredited"])
                st["uncredited"] = 0
            if self.recv_conn_window <= 0:
                self._wu(0, self.counters["conn_uncredited"])
                self.counters["conn_uncredited"] = 0
            return
        # tiny increments / ordering variants
        first, second = (sid, 0) if mode in ("tiny", "stream_first") else (0, sid)
        for target in (first, second):
            amount = st["uncredited"] if target == sid else self.counters["conn_uncredited"]
            while amount > 0:
                step = min(inc, amount)
                self._wu(target, step)
                amount -= step
            if target == sid:
                st["uncredited"] = 0
            else:
                self.counters["conn_uncredited"] = 0

    def _pending_window_leniency(self):
        """While SETTINGS carrying INITIAL_WINDOW_SIZE are un-ACKed the client may already have applied any prefix of them: the most
        favourable reading is granted (largest window any such prefix gives, relative to the ACKed value)."""
        best = 0
        cur = self.acked[S_INITIAL_WINDOW_SIZE]
        for st in self.pending_settings:
            if S_INITIAL_WINDOW_SIZE in st:
                cur = st[S_INITIAL_WINDOW_SIZE]
                best = max(best, cur - self.acked[S_INITIAL_WINDOW_SIZE])
        return best

    def _ensure_credit(self):
        """Whatever the policy, never leave an unfinished upload without credit and without a WINDOW_UPDATE on its way
        (a window can also become non-positive through an INITIAL_WINDOW_SIZE decrease)."""
        if self.cfg["wu_mode"] in ("none", "auto"):
            if self.cfg["wu_mode"] == "none":
                return
        for sid, st in self.streams.items():
            if not st["closed_in"] and st["recv_window"] <= 0 and not self.pending_settings:
                self._wu(sid, -st["recv_window"] + max(st.get("uncredited", 0), 1000))
                st["uncredited"] = 0
        if self.recv_conn_window <= 0:
            self._wu(0, -self.recv_conn_window + max(self.counters.get("conn_uncredited", 0), 1000))
            self.counters["conn_uncredited"] = 0

    def _wu(self, sid, inc):
        if inc <= 0:
            return
        fr = hf.WindowUpdateFrame(sid, window_increment=inc)
        if sid == 0:
            self.recv_conn_window += inc
        elif sid in self.streams:
            self.streams[sid]["recv_window"] += inc
        self._enqueue(0, fr.serialize(), 0, f"WINDOW_UPDATE({sid},{inc})")

    # ------------------------------------------------------------------ sending
    def _send_settings(self, settings: dict):
        fr = hf.SettingsFrame(0, settings={int(k): int(v) for k, v in settings.items()})
        st = {int(k): int(v) for k, v in settings.items()}
        if S_MAX_CONCURRENT_STREAMS in st:
            self.mcs_sent.append(st[S_MAX_CONCURRENT_STREAMS])
            if st[S_MAX_CONCURRENT_STREAMS] < self._open_count():
                self.lowered_below_inflight = True
        self.pending_settings.append(st)
        if S_MAX_FRAME_SIZE in st:
            self.lenient_frame_size = max(self.lenient_frame_size, st[S_MAX_FRAME_SIZE])
        self._enqueue(0, fr.serialize(), 0, f"SETTINGS({st})")

    def _action(self, act):
        if "settings" in act:
            self._send_settings(act["settings"])
        elif "ping" in act:
            fr = hf.PingFrame(0, opaque_data=bytes(act["ping"]) if isinstance(act["ping"], (list, bytes)) else b"12345678")
            if isinstance(act["ping"], dict) and act["ping"].get("gate"):
                self.ping_gate = True
            self._enqueue(0, fr.serialize(), 0, "PING")
        elif "goaway" in act:
            if self.goaway_sent is not None:
                return  # one GOAWAY per connection (a later one may not raise last-stream-id anyway)
            g = act["goaway"]
            last = g.get("last", 0)
            if isinstance(last, str):
                top = self.last_client_sid
                last = {"zero": 0, "below": max(top - 2, 0), "equal": top, "above": top + 2, "first": 1}[last]
            # a truthful server: last-stream-id is never below a stream it has already started to answer
            answered = [sid for sid, st in self.streams.items() if st["responded"]]
            if answered:
                last = max(last, max(answered))
            fr = hf.GoAwayFrame(0, last_stream_id=last, error_code=g.get("code", 0))
            self.goaway_sent = {"last": last, "code": g.get("code", 0), "seq": self.world.seq,
                                "sent_offset": None}
            for sid, st in self.streams.items():
                if sid > last:
                    st["ex"]["refused"] = True
                    if g.get("drop_refused", True):
                        self.outq.pop(sid, None)
                        st["closed_out"] = True
            self._enqueue(0, fr.serialize(), 0, f"GOAWAY(last={last})")
            if g.get("close"):
                self._enqueue(0, b"", 0, "CLOSE")
        elif "rst" in act:
            r = act["rst"]
            sid = r.get("sid", "last")
            if sid == "last":
                sid = self.last_client_sid
            elif sid == "first":
                sid = min(self.streams) if self.streams else 1
            self._rst(sid, r.get("code", 8))
        elif "window_update" in act:
            w = act["window_update"]
            sid = w.get("sid", 0)
            if sid == "last":
                sid = self.last_client_sid
            fr = hf.WindowUpdateFrame(sid, window_increment=w["inc"])
            if sid == 0:
                self.recv_conn_window += w["inc"]
            elif sid in self.streams:
                self.streams[sid]["recv_window"] += w["inc"]
            self._enqueue(0, fr.serialize(), 0, f"WINDOW_UPDATE({sid},{w['inc']})")
        elif "close" in act:
            self._enqueue(0, b"", 0, "CLOSE")

    def _rst(self, sid, code):
        st = self.streams.get(sid)
        if st is None:
            return
        fr = hf.RstStreamFrame(sid, error_code=code)
        self.outq[sid] = [(fr.serialize(), 0, "RST_STREAM", True)]
        st["ex"]["rst_by_server"] = True
        st["responded"] = True

    def _enqueue(self, q, data, flow, label, closes=False):
        self.outq.setdefault(q, []).append((data, flow, label, closes))

    def _respond(self, sid):
        st = self.streams[sid]
        ex = st["ex"]
        if ex.get("refused"):
            return  # a truthful server does not answer a stream that its GOAWAY has just declared unprocessed
        plan = self.net.plan(ex["token"])
        dep = plan.get("after_request")
        if dep is not None and dep not in self.net.seen_tokens:
            # a reactive server (long poll): this response is produced only once the request `dep` has been received
            self.net.deferred.append((self, sid))
            st["deferred"] = True
            return
        st["responded"] = True
        ex["plan"] = plan
        method = ex["method"]
        body = response_body(plan, ex["token"], method)
        hs = [(b":status", str(plan["status"]).encode())] + _h2_resp_headers(plan, ex["token"])
        units = []
        # header blocks are HPACK-encoded when they are *emitted* (the dynamic table depends on the order on the wire)
        for code in plan["interim"]:
            units.append((("lazy", sid, [(b":status", str(code).encode()), (b"x-interim", str(code).encode())], False, {}), 0,
                          "HEADERS-1xx", False))
        trailers = plan.get("h2_trailers")
        end_on_headers = (not body) and not trailers and plan.get("h2_empty_data") is None
        units.append((("lazy", sid, hs, end_on_headers, plan), 0, "HEADERS", end_on_headers))
        rst = plan.get("h2_rst")
        if body or plan.get("h2_empty_data") is not None:
            sizes = [s for s in plan.get("h2_frames", []) if s > 0] or [16384]
            maxf = self.client_settings[S_MAX_FRAME_SIZE]
            pos = 0
            i = 0
            frames = []
            while pos < len(body):
                s = min(sizes[i % len(sizes)], len(body) - pos, maxf)
                i += 1
                frames.append(body[pos:pos + s])
                pos += s
            if plan.get("h2_empty_data") == "leading":
                frames.insert(0, b"")
            if plan.get("h2_empty_data") == "trailing" or not frames:
                frames.append(b"")
            for j, chunk in enumerate(frames):
                last = j == len(frames) - 1
                fr = hf.DataFrame(sid, data=chunk)
                pad = plan.get("h2_pad", 0)
                if pad and len(chunk) + pad + 1 <= maxf:
                    fr.flags.add("PADDED")
                    fr.pad_length = pad
                if last and not trailers:
                    fr.flags.add("END_STREAM")
                units.append((fr, fr.flow_controlled_length, "DATA", last and not trailers))
        if trailers:
            units.append((("lazy", sid, [(b"x-trailer", b"1")], True, {}), 0, "HEADERS-trailers", True))
        ex["n_units"] = len(units)  # frames-as-units of the complete response (a header block with its CONTINUATIONs is one unit)
        if rst is not None:
            k = rst.get("after", 0)
            units = units[:k]
            fr = hf.RstStreamFrame(sid, error_code=rst.get("code", 8))
            units.append((fr.serialize(), 0, "RST_STREAM", True))
            ex["rst_by_server"] = True
        if plan.get("truncate_units") is not None:
            units = units[:plan["truncate_units"]]
            units.append((b"", 0, "CLOSE", False))
        self.outq.setdefault(sid, []).extend(units)

    def _header_frames(self, sid, headers, end_stream, plan):
        block = self.encoder.encode(headers)
        cont = plan.get("h2_continuation", 0)
        parts = [block]
        if cont and len(block) > 1:
            n = min(cont + 1, len(block))
            step = max(1, len(block) // n)
            parts = [block[i:i + step] for i in range(0, len(block), step)]
        out = []
        for i, part in enumerate(parts):
            if i == 0:
                fr = hf.HeadersFrame(sid, data=part)
                if end_stream:
                    fr.flags.add("END_STREAM")
                if plan.get("h2_pad") and len(parts) == 1:
                    fr.flags.add("PADDED")
                    fr.pad_length = plan["h2_pad"]
                if plan.get("h2_priority"):
                    fr.flags.add("PRIORITY")
                    fr.depends_on = 0
                    fr.stream_weight = 15
                    fr.exclusive = False
            else:
                fr = hf.ContinuationFrame(sid, data=part)
            if i == len(parts) - 1:
                fr.flags.add("END_HEADERS")
            # a header block must not be interleaved with other frames: emit it as one unit
            out.append(fr.serialize())
        return b"".join(out)

    # ---- emission
    def emittable(self):
        """Queue ids whose head unit can be sent now (DATA needs window)."""
        res = []
        for q, units in self.outq.items():
            if not units:
                continue
            data, flow, label, closes = units[0]
            if q != 0 and self.ping_gate and self.pings_unacked > 0:
                continue  # waiting for the PING ACK before going on with the streams
            if label == "DATA" and flow > 0:
                st = self.streams.get(q)
                if st is None or min(self.send_conn_window, st["send_window"]) <= 0:
                    continue
            res.append(q)
        return res

    def emit(self, q):
        units = self.outq.get(q)
        if not units:
            return False
        data, flow, label, closes = units[0]
        pipe = self.pipe
        if label == "CLOSE":
            units.pop(0)
            pipe.server_close()
            return True
        if label == "DATA":
            fr = data
            st = self.streams[q]
            avail = min(self.send_conn_window, st["send_window"])
            if flow > avail:
                if avail <= 0:
                    return False
                # split: send what the window allows (padding dropped on the split part)
                head = hf.DataFrame(q, data=fr.data[:avail])
                rest = hf.DataFrame(q, data=fr.data[avail:])
                rest.flags = fr.flags
                units[0] = (rest, rest.flow_controlled_length, "DATA", closes)
                wire = head.serialize()
                self.send_conn_window -= avail
                st["send_window"] -= avail
                self.total_sent_data += avail
                pipe.server_send(wire, direct=True)
                self.log.append(("send", "DATA", q, avail, self.world.seq))
                return True
            self.send_conn_window -= flow
            st["send_window"] -= flow
            self.total_sent_data += flow
            wire = fr.serialize()
        elif isinstance(data, tuple) and data[0] == "lazy":
            wire = self._header_frames(data[1], data[2], data[3], data[4])
        else:
            wire = data
        units.pop(0)
        pipe.server_send(wire, direct=True)
        if label == "PING":
            self.pings_unacked += 1
        self.log.append(("send", label, q, len(wire), self.world.seq))
        if label.startswith("GOAWAY") and self.goaway_sent is not None:
            self.goaway_sent["sent_offset"] = len(pipe.sent)
        if closes and q in self.streams:
            st = self.streams[q]
            st["closed_out"] = True
            st["ex"]["resp_end"] = len(pipe.sent)
            if label == "RST_STREAM":
                st["closed_in"] = True
            self._count("response_sent")
        return True

    def pump(self):
        """Inline mode: emit everything that can be emitted, in the configured order."""
        if self.gated:
            return
        guard = 0
        while True:
            qs = self.emittable()
            if not qs:
                return
            guard += 1
            if guard > 1_000_000:
                raise RuntimeError("h2 peer pump does not terminate")
            if 0 in qs:
                self.emit(0)
                continue
            order = self.cfg["order"]
            sq = sorted(qs)
            if order == "rev":
                q = sq[-1]
            elif order == "rr":
                self.rr += 1
                q = sq[self.rr % len(sq)]
            else:
                q = sq[0]
            self.emit(q)

    def owes(self):
        """True if the server still has something it could send right now (used by deadlock oracles)."""
        return bool(self.emittable())
