"""Replay peer for C15: sends a fixed script of byte strings ("rounds") whatever the client writes.
Round 0 is available at connect; round k is released by the client's k-th non-empty write - or, if the client
reads while nothing is pending, early (an impatient / unsolicited peer), so that a read never blocks before the
script has ended. After the last round the peer closes: every further read returns EOF."""
from __future__ import annotations


class ReplayPeer:
    def __init__(self, world, pipe, rounds, tls_alpn=None):
        self.world = world
        self.pipe = pipe
        self.rounds = [bytes(r) for r in rounds]
        self.released = 0
        self.tls_alpn = tls_alpn
        self.writes = 0
        self.tls_seen = []
        self._release()
        pipe.before_block = self.on_starved

    def _release(self):
        if self.released < len(self.rounds):
            self.pipe.server_send(self.rounds[self.released])
            self.released += 1
        if self.released >= len(self.rounds):
            self.pipe.server_close()

    def on_starved(self):
        """Called by SimNet when a read finds nothing pending: release the next round early. Returns True if something changed."""
        if self.released < len(self.rounds) or not self.pipe.eof:
            before = (len(self.pipe.inbound), self.pipe.eof)
            self._release()
            while not self.pipe.inbound and not self.pipe.eof:
                self._release()
            return (len(self.pipe.inbound), self.pipe.eof) != before
        return False

    def on_data(self, data):
        self.writes += 1
        self._release()

    def on_tls(self, server_hostname, alpn_offered):
        self.tls_seen.append((server_hostname, alpn_offered))
        if alpn_offered and self.tls_alpn in alpn_offered:
            return self.tls_alpn
        if alpn_offered and "http/1.1" in alpn_offered:
            return "http/1.1"
        return None

    def on_client_close(self):
        pass

    def leaf(self):
        return self

    def all_exchanges(self):
        return []
