"""Declarative description of a property check: layers of generated / enumerated cases."""
from __future__ import annotations

import typing as t


class Layer:
    """One family of cases for a property.

    kind 'hyp'  : `strategy()` returns a Hypothesis strategy of JSON-able cases; budget = total
                  number of examples over all workers for the tier.
    kind 'enum' : `cases(tier)` returns a (re-iterable, deterministic) sequence of JSON-able cases;
                  every worker executes the slice i % nshards == shard. budget None = all.
    `execute(case)` returns a vf.common.Outcome.
    """

    def __init__(self, name, *, execute, strategy=None, cases=None, budget=None, setup=None, stall_is_violation=False, stall_s=None):
        self.stall_s = stall_s  # one case of this layer legitimately runs for minutes (a whole fuzzing campaign): own watchdog limit
        self.stall_is_violation = stall_is_violation  # non-termination is part of the property (C07, C08, C12, C13, C15)
        assert (strategy is None) != (cases is None)
        self.name = name
        self.kind = "hyp" if strategy is not None else "enum"
        self.strategy = strategy
        self.cases = cases
        self.execute = execute
        self.budget = budget or {}
        self.setup = setup  # optional callable run once per worker before the layer


class Prop:
    def __init__(self, id, *, level, rule, layers, assumptions=(), explanation="", workers=None,
                 extra_coverage=None, shrink_s=None):
        self.id = id
        self.level = level
        self.rule = rule
        self.layers: list[Layer] = list(layers)
        self.assumptions = list(assumptions)
        self.explanation = explanation
        self.workers = workers or {"quick": 8, "thorough": 16}
        self.extra_coverage = extra_coverage  # callable(tier, agg) -> dict merged into coverage
        self.shrink_s = shrink_s or {"quick": 10.0, "thorough": 60.0}
