"""C01 - each response belongs to its own request (no cross-talk, no desync). Engine: vf/props/conc.py."""
from __future__ import annotations

from ..prop import Layer, Prop
from . import c01x
from .conc import h2_multi_connection_scenarios, make_execute, scenarios

RULE = ("Concurrent histories on the harness-scheduled asyncio driver: 2-4 callers x 1-3 sequential requests over 1-3 origins, pool with "
        "max_connections 1-3 and keep-alive limit None/0/1, HTTP/1.1 keep-alive and HTTP/2 (ALPN, prior knowledge, h2-capable pool against an "
        "h1 server), direct / forward proxy / CONNECT tunnel / SOCKS5; request modes read all / read 1-2 chunks then close / close unread / hold; "
        "server plans per token: status, Content-Length / chunked / close-delimited, Connection: close, HTTP/1.0, interim 1xx, bodies 0..140 kB; "
        "0-2 network faults (error / timeout / EOF at a drawn op index), optionally one caller cancelled at a drawn suspension (task or scope "
        "style), server-side closes of idle connections, a drawn schedule (which enabled action runs next) and read segmentation. "
        "Second layer: 2-3 HTTP/2 connections (one per origin, limits 3-4) carrying overlapping exchanges of up to 5 callers on a "
        "well-behaved network (same stream ids in flight on different connections). Layer fault-then-reuse (enumerated, inline sync + async): one "
        "HTTP/1.1 exchange (GET / POST bytes / POST iterator, answered at the end or EARLY, i.e. as soon as the head arrived) followed by two more "
        "requests to the same origin over 5 connection kinds, with a fault of every kind (error, timeout, end of stream) at EVERY network operation. "
        "Layer cancel-with-sibling-writing (enumerated): a sibling's upload to the same origin is under way (HTTP/2: same connection), the victim is cancelled "
        "at EVERY one of its suspension points (task / scope, asyncio and trio), then further requests use the same pool. Oracle: token echo (status, x-tok header, body / prefix for partial reads) + per-pipe wire check that a request head only starts after "
        "the previous exchange finished in both directions and did not announce close. Non-trivial: a connection carried >= 2 requests after "
        "a disruptive event (early close, fault, cancellation, close-announcing response), or >= 2 streams were open at once on one HTTP/2 "
        "connection; distinct = distinct scenario.")

PROP = Prop(
    "C01", level="exploration", rule=RULE,
    layers=[Layer("histories", strategy=scenarios, execute=make_execute("C01"), budget={"quick": 3000, "thorough": 60000}),
            Layer("h2-multi-connection", strategy=h2_multi_connection_scenarios, execute=make_execute("C01"), budget={"quick": 1200, "thorough": 30000}),
            Layer("fault-then-reuse", cases=c01x.cases, execute=c01x.execute),
            Layer("cancel-with-sibling-writing", cases=c01x.cancel_cases, execute=c01x.execute_cancel),
            __import__("vf.props.real", fromlist=["concurrent_layer"]).concurrent_layer("C01", {"quick": 320, "thorough": 12000})],
    assumptions=["the server always sends exactly one well-framed final response per complete request (malformed data is C15's domain)",
                 "asyncio and trio drivers (schedules are sampled by a harness-owned scheduler and reproducible from the replay file); threads are covered by C08",
                 "layer real-concurrent: 2-6 concurrent async callers (asyncio gather / trio nursery) through httpcore's own backends over loopback sockets with "
                 "real TLS, fault-free; the schedule there is the runtime's and the kernel's (not controlled, not replayable as a schedule), the oracle (every "
                 "response is the plan's answer to its own token, no request fails) holds for every schedule",
                 "runs in which a listed open C05 finding fired are judged as usual; their signature carries the cancellation site"],
    explanation="Schedule space sampled; every response is attributed to exactly one request by its token.",
)
