"""C01 layer 'fault-then-reuse' (enumerated, inline sync + async): one exchange of a given shape (GET / POST with a bytes body / POST with an
iterator body, answered at the end of the request or EARLY - as soon as the head has arrived, as a server that rejects an upload does), followed by
two more requests to the same origin; a network fault of every kind (error, timeout, end of stream) is injected at EVERY network operation of the
sequence. Oracle: every response that is delivered answers its own token; no request head starts on a connection whose previous exchange had not
finished in both directions; the bytes on every connection parse as a sequence of well-formed requests."""
from __future__ import annotations

from ..common import Outcome, V
from ..drivers import async_request, build_pool, run_async, sync_request
from ..peers.h1 import norm_plan, response_body
from ..simnet import World
from ..topo import topo

P = "C01"
KINDS = ["direct-h1", "direct-tls-h1", "forward", "tunnel-h1", "socks-h1"]
SHAPES = ["get", "post-bytes", "post-iter", "post-iter-empty-chunks"]
PLANS = {"cl": {"status": 200, "body_len": 23, "framing": "cl"}, "chunked": {"status": 404, "body_len": 40, "framing": "chunked", "chunks": [7, 33]},
         "early-cl": {"status": 413, "body_len": 11, "framing": "cl", "respond_at": "head"},
         "early-chunked": {"status": 200, "body_len": 30, "framing": "chunked", "chunks": [30], "respond_at": "head"}}


def _specs(scheme, shape):
    first = {"method": "GET" if shape == "get" else "POST", "url": f"{scheme}://a.test/t/v0", "api": "request"}
    if shape == "post-bytes":
        first["content"] = b"body-of-v0" * 3
    elif shape == "post-iter":
        first["content"] = {"chunks": [b"body-", b"of-", b"v0"]}
    elif shape == "post-iter-empty-chunks":
        first["content"] = {"chunks": [b"", b"body-of-v0", b""]}
    return [first, {"method": "GET", "url": f"{scheme}://a.test/t/v1", "api": "stream"}, {"method": "GET", "url": f"{scheme}://a.test/t/v2", "api": "request"}]


def _run(case, fault):
    plans = {"v0": dict(PLANS[case["plan"]]), "v1": {"status": 200, "body_len": 12}, "v2": {"status": 201, "body_len": 5, "framing": "chunked", "chunks": [2, 3]}}
    pool_cfg, cfg, scheme = topo(case["kind"], plans=plans)
    world = World(peer_factory=cfg.peer_factory, faults=[dict(fault)] if fault else [])
    pool = build_pool(world, pool_cfg, sync=case["sync"])
    specs = _specs(scheme, case["shape"])
    if case["sync"]:
        outs = [sync_request(pool, s) for s in specs]
        pool.close()
    else:
        async def go():
            o = [await async_request(pool, s) for s in specs]
            await pool.aclose()
            return o

        outs = run_async(go())
    return outs, world, plans


def cases(tier):
    out = []
    i = 0
    for kind in KINDS:
        for shape in SHAPES:
            for plan in PLANS:
                if shape == "get" and plan.startswith("early"):
                    continue
                base = {"kind": kind, "shape": shape, "plan": plan, "sync": True}
                _, world, _ = _run(base, None)
                eligible = [(op["elig"], op["kind"]) for op in world.trace if "elig" in op]
                for at, opkind in eligible:
                    for f in ("error", "timeout", "eof"):
                        if f == "eof" and opkind != "read":
                            continue
                        i += 1
                        if tier == "quick" and kind not in ("direct-h1", "tunnel-h1") and i % 3:
                            continue  # quick: the proxied / TLS kinds get every third case
                        out.append(dict(base, sync=bool(i % 2), fault={"at": at, "fault": f}, opkind=opkind))
    return out


def execute(case) -> Outcome:
    outs, world, plans = _run(case, case.get("fault"))
    what = (f"[{'sync' if case['sync'] else 'async'}] {case['kind']} {case['shape']} answered by plan {case['plan']}, then two GETs to the same origin; "
            f"fault {case.get('fault')} on a {case.get('opkind')}")
    vio = []
    base = dict(conn=case["kind"])
    for tok, spec_out in zip(("v0", "v1", "v2"), outs):
        if spec_out["exc"] is not None:
            continue
        plan = norm_plan(plans[tok])
        method = b"GET" if tok != "v0" or case["shape"] == "get" else b"POST"
        exp = response_body(plan, tok, method)
        xt = [v for n, v in spec_out["headers"] if n.lower() == b"x-tok"]
        if spec_out["status"] != plan["status"] or xt != [tok.encode()]:
            vio.append(V(P, "wrong-response", f"{what}: the request for {tok} got status {spec_out['status']} x-tok {xt} (expected {plan['status']}, {tok})", **base))
        elif spec_out["body"] != exp and not (any(f["fault"] == "eof" for f in world.fired_faults) and plan["framing"] == "close" and exp.startswith(spec_out["body"])):
            vio.append(V(P, "wrong-body", f"{what}: body for {tok} differs from what the server sent for it ({spec_out['body'][:30]!r} vs {exp[:30]!r})", **base))
    reused = False
    for p in world.pipes:
        leaf = p.peer.leaf()
        for msg in getattr(leaf, "wire_violations", []):
            vio.append(V(P, "reused-unfinished-connection", f"{what}: pipe {p.id}: {msg}", **base))
        for msg in getattr(leaf, "parse_errors", []):
            vio.append(V(P, "wire-desync", f"{what}: the bytes written on pipe {p.id} do not parse as a sequence of requests: {msg}", **base))
        exs = leaf.all_exchanges() if hasattr(leaf, "all_exchanges") else []
        if len([e for e in exs if not e.get("proxy_hop") or e.get("method") != b"CONNECT"]) >= 2:
            reused = True
    fired = bool(world.fired_faults)
    tags = [case["kind"], case["shape"], "plan-" + case["plan"], "fault-" + (case["fault"]["fault"] if case.get("fault") else "none") + "-" + str(case.get("opkind")),
            "reused-after-fault" if (fired and reused) else ("fault-fired" if fired else "fault-not-reached")]
    tags += ["out-" + ",".join((o["exc"]["name"] if o["exc"] else str(o["status"])) for o in outs)]
    return Outcome(vio[:4], tags, fired, info={"outcomes": [(o["exc"]["name"] if o["exc"] else o["status"]) for o in outs]})


# ----------------------------------------------------------------------------- layer 'cancel-with-sibling-writing'
# The victim shares its connection (HTTP/2) or its pool (HTTP/1.1) with a sibling whose upload started first; the victim is cancelled at EVERY one
# of its suspension points (task / scope style, asyncio and trio); afterwards the pool is probed with further requests on the same connections.
# Oracle (C01): every delivered response - callers' and probes' - answers its own token, and what the client wrote on every connection still
# decodes (HPACK state in step, well-formed HTTP/1.1 request sequence).

CANCEL_KINDS = ["direct-h2", "tunnel-h2", "prior-h2", "socks-auth-tls-h2", "direct-h1", "forward"]


def cancel_cases(tier):
    from . import c05

    kinds = CANCEL_KINDS if tier == "thorough" else CANCEL_KINDS[:2] + ["direct-h1"]
    out = []
    from ..topo import is_h2

    for kind in kinds:
        # HTTP/2: also with a server that sends PINGs along with the responses, so that the client has something to write (the ACK) right after
        # a read that may have carried the sibling's frames
        h2s = [None] + ([{"script": [{"when": {"event": ev, "n": n}, "do": [{"ping": True}]} for ev, n in evs]} for evs in
                         ((("headers", 1), ("data", 0)), (("request_complete", 1), ("data", 1), ("data", 3)))] if is_h2(kind) else [])
        for h2 in h2s:
          # (with PINGs: also under three other schedules, so that the victim's reads are the ones that carry the sibling's frames)
          for choices in ([[]] if h2 is None else [[], [1] * 60, [2, 0, 1] * 25, [3, 1, 0, 2] * 20]):
            for shape in ("get", "post2"):
                for runtime in (None, "trio"):
                    base = {"kind": kind, "context": "sibling-first", "shape": shape, "runtime": runtime}
                    if choices:
                        base["choices"] = choices
                    if h2 is not None:
                        base["h2"] = h2
                        base["dsegs"] = [330, 700]  # server bytes arrive in pieces: one response is read partly by its owner, partly by others
                    run, world, callers = c05.run_case(dict(base), record_sites=True)
                    sites = callers[0].sites
                    ks = []
                    i = 0
                    while i < len(sites):  # a run of suspensions at one source line (the ~100 semaphore checkpoints) is represented by three
                        j = i
                        while j + 1 < len(sites) and sites[j + 1] == sites[i]:
                            j += 1
                        ks += sorted({i + 1, min(i + 1, j) + 1, j + 1})
                        i = j + 1
                    for k in ks:
                        for style in (("scope",) if runtime == "trio" else ("task", "scope")):
                            if tier == "quick" and h2 is not None and style == "task":
                                continue
                            out.append(dict(base, cancel={"style": style, "at": k}))
    return out


def execute_cancel(case) -> Outcome:
    from . import c05
    from .conc import own_write_parked

    run, world, callers = c05.run_case(case)
    c0 = callers[0]
    plans = c05.plans_for(case)
    trigger, phase = c05.classify_trigger(case, world, callers)
    base = dict(conn=case["kind"], trigger=trigger, site=phase,
                in_shield=bool(c0.in_shield_at_delivery if c0.delivery_site is not None else c0.in_shield_at_cancel), own_write_parked=own_write_parked(c0))
    if case.get("runtime") == "trio":
        base["runtime"] = "trio"
    what = (("[trio] " if case.get("runtime") == "trio" else "") + f"{case['kind']}: a sibling upload is under way, the victim ({case['shape']}) is cancelled "
            f"({case['cancel']['style']}) at its suspension {case['cancel']['at']} ({phase})")
    vio = []
    for c in callers:
        for i, o in enumerate(c.results):
            if o.get("exc") is None and o.get("status") is not None:
                tok = c.program[i]["tok"]
                xt = [v for n, v in o["headers"] if n.lower() == b"x-tok"]
                if xt != [tok.encode()]:
                    vio.append(V(P, "wrong-response", f"{what}: caller {c.id} asked for {tok} and got status {o['status']} x-tok {xt}", **base))
                elif not o.get("partial") and tok in plans:
                    exp = response_body(norm_plan(plans[tok]), tok, c.program[i]["spec"]["method"].encode())
                    if o["body"] != exp:
                        vio.append(V(P, "wrong-body", f"{what}: caller {c.id} got {len(o['body'])} bytes for {tok}, the server sent {len(exp)} for it "
                                     f"(got {o['body'][:24]!r}..., sent {exp[:24]!r}...): bytes of its own response are missing", **base))
    for i, status, xt in run.result.get("probe_wrong", []):
        vio.append(V(P, "wrong-response", f"{what}: a later request for probe{i} on the same pool got status {status} x-tok {xt} - the answer to another request", **base))
    for p in world.pipes:
        leaf = p.peer.leaf()
        for msg in (getattr(getattr(leaf, "h2", None), "errors", None) or []):
            vio.append(V(P, "wire-desync", f"{what}: the HTTP/2 peer cannot decode what the client sent on pipe {p.id} afterwards: {msg}", **base))
        for msg in getattr(leaf, "wire_violations", []):
            vio.append(V(P, "reused-unfinished-connection", f"{what}: pipe {p.id}: {msg}", **base))
        for msg in getattr(leaf, "parse_errors", []):
            vio.append(V(P, "wire-desync", f"{what}: the bytes written on pipe {p.id} do not parse as a sequence of requests: {msg}", **base))
    fired = c0.cancel_fired_at is not None
    tags = [case["kind"], "shape-" + case["shape"], "runtime-" + (case.get("runtime") or "asyncio"), "cancel-" + case["cancel"]["style"],
            "site-" + str(phase), "fired" if fired else "not-reached"]
    if base["own_write_parked"]:
        tags.append("own-write-in-flight")
    return Outcome(vio[:4], tags, fired, info={"probe": run.result.get("probe"), "site": phase})


def execute_cancel_c12(case) -> Outcome:
    """The same enumeration judged for C12: the sibling, which nobody cancelled, must not end with a cancellation (the victim's, handed on to it)."""
    from . import c05
    from .conc import own_write_parked

    run, world, callers = c05.run_case(case)
    c0 = callers[0]
    trigger, phase = c05.classify_trigger(case, world, callers)
    base = dict(conn=case["kind"], trigger=trigger, site=phase,
                in_shield=bool(c0.in_shield_at_delivery if c0.delivery_site is not None else c0.in_shield_at_cancel), own_write_parked=own_write_parked(c0))
    if case.get("runtime") == "trio":
        base["runtime"] = "trio"
    vio = []
    for c in callers[1:]:
        if getattr(c, "spurious_cancel", None):
            vio.append(V("C12", "sibling-cancelled", f"{case['kind']}: the victim ({case['shape']}) was cancelled ({case['cancel']['style']}) at its suspension {case['cancel']['at']} ({phase}); "
                         f"caller {c.id}, which nobody cancelled, ended with a cancellation ({c.spurious_cancel})", **base))
    fired = c0.cancel_fired_at is not None
    return Outcome(vio[:2], [case["kind"], "cancel-" + case["cancel"]["style"], "site-" + str(phase), "fired" if fired else "not-reached"], fired)


def cancel_cases_h2(tier):
    from ..topo import is_h2

    return [c for c in cancel_cases(tier) if is_h2(c["kind"]) and c.get("runtime") != "trio"]
