"""C02 - responses are delivered byte-exact, independent of network segmentation; truncation is an error.

For every generated well-formed response (HTTP/1.1 framings, HTTP/2 frame layouts) the whole server byte stream
of a reference run is (a) delivered one byte at a time, (b) split at *every* single position (or at every
structural position plus a sample for big responses), (c) split at drawn multi-cut sets, and (d) truncated at
*every* position followed by EOF. Oracle: ground truth equality for (a)-(c); an exception for (d) unless the
delivered prefix already contains the complete framed message.
"""
from __future__ import annotations

from hypothesis import strategies as st

from .. import gen
from ..common import Outcome, V
from ..drivers import async_request, build_pool, run_async, sync_request
from ..peers.endpoints import NetConfig
from ..peers.h1 import truth_h1
from ..peers.h2 import truth_h2
from ..prop import Layer, Prop
from ..simnet import World

P = "C02"
FULL_ENUM_LIMIT = 1200  # responses up to this many wire bytes get *every* cut / truncation point
RST_CODES = (0, 1, 2, 5, 7, 8, 11, 13, 0x1234)  # NO_ERROR, PROTOCOL_ERROR, INTERNAL_ERROR, STREAM_CLOSED, REFUSED_STREAM, CANCEL, ENHANCE_YOUR_CALM, HTTP_1_1_REQUIRED, unknown


def net_for(case):
    plans = {"t0": case["plan"], "t1": {}}
    if case["proto"] == "h2":
        script = []
        if case.get("h2_goaway_after"):
            # graceful shutdown: GOAWAY(NO_ERROR, last-stream-id = the stream just answered) right after the response
            script = [{"when": {"event": "response_sent", "n": 0}, "do": [{"goaway": {"last": "equal"}}]}]
        return NetConfig(endpoints={"a.test:443": {"role": "origin", "alpn": "h2"}}, plans=plans,
                         h2={"initial_settings": case.get("h2_settings", {"3": 100}), "script": script})
    return NetConfig(plans=plans)


def url_for(case, tok):
    if case["proto"] == "h2":
        return ("https://a.test/t/" if case.get("h2_mode", "alpn") == "alpn" else "http://a.test/t/") + tok
    return "http://a.test/t/" + tok


def pool_cfg(case):
    if case["proto"] == "h2":
        return {"http2": True} if case.get("h2_mode", "alpn") == "alpn" else {"http2": True, "http1": False}
    return {}


def truth(case):
    m = case["method"].encode()
    return truth_h2(case["plan"], "t0", m) if case["proto"] == "h2" else truth_h1(case["plan"], "t0", m)


def run(case, *, cuts=None, seg=None, truncate=None, sync=True, second=False, api="stream", faults=None):
    cfg = net_for(case)
    world = World(peer_factory=cfg.peer_factory, cuts={0: cuts} if cuts else None, seg=seg, faults=faults)
    if truncate is not None:
        world.truncate[0] = truncate
    pool = build_pool(world, pool_cfg(case), sync=sync)
    spec = {"method": case["method"], "url": url_for(case, "t0"), "api": api}
    if case["method"] in ("POST", "PUT"):
        spec["content"] = b"req-body"
    spec2 = {"method": "GET", "url": url_for(case, "t1"), "api": "request"}
    if sync:
        out = sync_request(pool, spec)
        out2 = sync_request(pool, spec2) if second and out["exc"] is None else None
        pool.close()
    else:
        async def go():
            o = await async_request(pool, spec)
            o2 = await async_request(pool, spec2) if second and o["exc"] is None else None
            await pool.aclose()
            return o, o2

        out, out2 = run_async(go())
    return world, out, out2


def compare(out, tr, case, what):
    """Ground-truth comparison -> list of (kind, msg)."""
    bad = []
    if out["exc"] is not None:
        return [("exception", f"{what}: well-formed response raised {out['exc']['type']}: {out['exc']['msg']}")]
    if out["status"] != tr["status"]:
        bad.append(("status", f"{what}: status {out['status']} != {tr['status']}"))
    if 100 <= out["status"] < 200:
        bad.append(("interim-returned", f"{what}: interim response {out['status']} returned as final"))
    if out["headers"] != tr["headers"]:
        bad.append(("headers", f"{what}: headers {out['headers']!r} != sent {tr['headers']!r}"))
    if out["body"] != tr["body"]:
        n = min(len(out["body"]), len(tr["body"]))
        diff = next((i for i in range(n) if out["body"][i] != tr["body"][i]), n)
        bad.append(("body", f"{what}: body of {len(out['body'])} bytes != framed body of {len(tr['body'])} bytes (first difference at {diff})"))
    if case["proto"] == "h1":
        if out["http_version"] != tr["version"]:
            bad.append(("version", f"{what}: http_version {out['http_version']!r} != {tr['version']!r}"))
        if out["reason"] != tr["reason"]:
            bad.append(("reason", f"{what}: reason {out['reason']!r} != {tr['reason']!r}"))
    else:
        if out["http_version"] != b"HTTP/2":
            bad.append(("version", f"{what}: http_version {out['http_version']!r} != b'HTTP/2'"))
    return bad


def bound_plan(plan):
    """Keep the number of chunks / DATA frames per response <= 256 so that one case stays cheap
    (sizes are scaled up, the shape of the size sequence is kept)."""
    plan = dict(plan)
    n = plan.get("body_len", 0)
    for key in ("chunks", "h2_frames"):
        sizes = [s for s in plan.get(key) or [] if s > 0]
        if sizes and n / (sum(sizes) / len(sizes)) > 256:
            f = (n / 256) / (sum(sizes) / len(sizes))
            plan[key] = [max(1, int(s * f) + 1) for s in sizes]
    return plan


def execute(case) -> Outcome:
    case = dict(case)
    case["plan"] = bound_plan(case["plan"])
    vio = []
    tags = [case["proto"], "m-" + case["method"]]
    metrics = {"executions": 0, "cut_runs": 0, "trunc_runs": 0, "structural_cut_runs": 0}
    tr = truth(case)
    plan = case["plan"]

    def add(kind, msg, mode):
        if len(vio) < 6:
            vio.append(V(P, kind, msg, proto=case["proto"], mode=mode))

    # ---- reference run (no cuts), both variants, plus a second request on the same connection
    ref_world, out, out2 = run(case, second=True, api=case.get("api", "stream"))
    metrics["executions"] += 1
    for k, m in compare(out, tr, case, "unsegmented"):
        add(k, m, "whole")
    tr2 = (truth_h2 if case["proto"] == "h2" else truth_h1)({}, "t1", b"GET")
    if out2 is not None:
        for k, m in compare(out2, tr2, case, "follow-up request after the response"):
            add("followup-" + k, m, "whole")
    _, aout, aout2 = run(case, sync=False, second=True)
    metrics["executions"] += 1
    for k, m in compare(aout, tr, case, "unsegmented (async)"):
        add(k, m, "whole-async")
    if vio:
        return Outcome(vio, tags, True, info={"plan": plan}, metrics=metrics)

    pipe = ref_world.pipes[0]
    stream = bytes(pipe.sent)
    leaf = pipe.peer.leaf()
    ex0 = leaf.all_exchanges()[0]
    n_first = ex0["resp_end"]  # server stream offset where the first response is completely framed
    n = n_first if out2 is None else len(stream)
    # structural offsets: inside CRLF pairs / chunk-size lines (H1) or inside 9-byte frame headers (H2)
    structural = set()
    if case["proto"] == "h1":
        i = stream.find(b"\r\n")
        while i >= 0:
            structural.add(i + 1)
            i = stream.find(b"\r\n", i + 1)
        for off in ex0.get("marks", {}).get("structural", []):
            structural.add(ex0["resp_start"] + off)
    else:
        pos = 0
        while pos + 9 <= len(stream):
            ln = int.from_bytes(stream[pos:pos + 3], "big")
            for d in range(1, 9):
                structural.add(pos + d)
            pos += 9 + ln
    structural = sorted(x for x in structural if 0 < x < n)

    # ---- (a) one byte at a time (sync and async)
    bound = n if n <= 6000 else None
    if bound is not None:
        for sync in (True, False):
            _, o, o2 = run(case, seg=[1], sync=sync, second=True)
            metrics["executions"] += 1
            for k, m in compare(o, tr, case, "byte-at-a-time"):
                add(k, m, "byte-at-a-time")
            if o2 is not None:
                for k, m in compare(o2, tr2, case, "follow-up after byte-at-a-time"):
                    add("followup-" + k, m, "byte-at-a-time")
        tags.append("byte-at-a-time")

    # ---- (b) every two-piece split
    if n <= FULL_ENUM_LIMIT:
        positions = list(range(1, n))
        tags.append("all-single-cuts")
    else:
        step = max(1, n // 150)
        positions = sorted(set(structural[:400]) | set(range(1, 200)) | set(range(max(1, n - 200), n)) | set(range(1, n, step)))
        tags.append("sampled-single-cuts")
    sset = set(structural)
    for c in positions:
        _, o, o2 = run(case, cuts=[c], second=(out2 is not None and c >= n_first))
        metrics["executions"] += 1
        metrics["cut_runs"] += 1
        if c in sset:
            metrics["structural_cut_runs"] += 1
        for k, m in compare(o, tr, case, f"single cut at {c}/{n}"):
            add(k, m, "single-cut")
        if o2 is not None:
            for k, m in compare(o2, tr2, case, f"follow-up with cut at {c}/{n}"):
                add("followup-" + k, m, "single-cut")
        if vio:
            break

    # ---- (c) drawn multi-cut segmentations (positions are drawn as fractions of n)
    for fracs in case.get("multicuts", []):
        cuts = sorted({max(1, min(n - 1, int(f * n))) for f in fracs}) if n > 1 else []
        for sync in (True, False):
            _, o, o2 = run(case, cuts=cuts, sync=sync, second=True)
            metrics["executions"] += 1
            metrics["cut_runs"] += 1
            for k, m in compare(o, tr, case, f"cuts {cuts}"):
                add(k, m, "multi-cut")
            if o2 is not None:
                for k, m in compare(o2, tr2, case, f"follow-up with cuts {cuts}"):
                    add("followup-" + k, m, "multi-cut")
    for seg in case.get("segs", []):
        _, o, o2 = run(case, seg=seg, second=True)
        metrics["executions"] += 1
        metrics["cut_runs"] += 1
        for k, m in compare(o, tr, case, f"segment sizes {seg}"):
            add(k, m, "seg")

    # ---- (d) every truncation point, followed by EOF
    close_delimited = case["proto"] == "h1" and not ex0.get("marks", {}).get("body_framed", True)
    head_end = ex0["resp_start"] + ex0["marks"]["head_end"] if case["proto"] == "h1" else None
    if n_first <= FULL_ENUM_LIMIT:
        tpoints = list(range(0, n_first + 1))
    else:
        step = max(1, n_first // 150)
        tpoints = sorted(set(structural[:300]) | set(range(0, 200)) | set(range(max(0, n_first - 200), n_first + 1)) | set(range(0, n_first, step)))
    for p in tpoints:
        if close_delimited and p >= head_end:
            continue  # every prefix of a close-delimited body is a complete message by definition
        _, o, _ = run(case, truncate=p, api="request")
        metrics["executions"] += 1
        metrics["trunc_runs"] += 1
        complete = p >= n_first
        if complete:
            for k, m in compare(o, tr, case, f"EOF right after the complete message ({p}/{n_first})"):
                add(k, m, "truncate-complete")
        elif o["exc"] is None:
            add("truncation-silent", f"connection ended after {p} of {n_first} bytes of the framed response but the caller got "
                f"status {o['status']} and a body of {len(o['body'])} bytes without an error (framed body: {len(tr['body'])} bytes)",
                "truncate")
        elif o["exc"]["type"] == "HANG":
            add("truncation-hang", f"truncation at {p}/{n_first}: {o['exc']['msg']}", "truncate")
        if vio:
            break

    # ---- (f) the transport FAILS (a reset: the backend raises ReadError) at each read of the exchange: a read that was needed did not deliver, so
    #      the message cannot be complete - the caller must get an error whatever the framing (also close-delimited: a reset is not an end of stream)
    if not vio:
        n_reads = sum(1 for op in ref_world.trace if op["kind"] == "read" and op.get("pipe") == 0 and op["seq"] <= (ex0.get("done_seq") or 1 << 60))
        first_reads = [op for op in ref_world.trace if op["kind"] == "read" and op.get("pipe") == 0]
        # only the reads of the FIRST exchange: those issued before the second request was written
        second_start = next((e["head_seq"] for e in leaf.all_exchanges()[1:2]), None)
        ks = [op["kind_index"] for op in first_reads if second_start is None or op["seq"] < second_start]
        for k in ks[:40]:
            for sync in (True, False):
                _, o, _ = run(case, sync=sync, api="request", faults=[{"kind": "read", "kind_index": k, "fault": "ReadError"}])
                metrics["executions"] += 1
                metrics["reset_runs"] = metrics.get("reset_runs", 0) + 1
                if o["exc"] is None:
                    add("read-error-swallowed", f"the transport raised ReadError (connection reset) at read #{k} of the exchange [{'sync' if sync else 'async'}] but the caller "
                        f"got status {o['status']} and a body of {len(o['body'])} bytes without an error (the server sent {len(tr['body'])} bytes)", "reset")
                elif o["exc"]["type"] == "HANG":
                    add("reset-hang", f"ReadError at read #{k}: {o['exc']['msg']}", "reset")
            if vio:
                break
        tags.append("transport-reset-sweep")

    # ---- (e) HTTP/2: the stream is reset (RST_STREAM with every error code class, NO_ERROR included) after each prefix of the
    #      response's frames: an error unless the response was already complete (END_STREAM sent)
    if case["proto"] == "h2" and not vio:
        n_units = ex0.get("n_units", 0)
        ks = list(range(0, n_units + 1)) if n_units <= 10 else sorted({0, 1, 2, 3, n_units // 2, n_units - 3, n_units - 2, n_units - 1, n_units})
        for k in ks:
            for code in RST_CODES:
                rcase = dict(case, plan=dict(plan, h2_rst={"after": k, "code": code}), h2_goaway_after=False)
                for sync in ((True, False) if code in (0, 8) else (True,)):
                    _, o, _ = run(rcase, sync=sync, api="request" if code != 0 else case.get("api", "stream"),
                                  seg=[1] if (k + code) % 5 == 0 and n <= 3000 else None)
                    metrics["executions"] += 1
                    metrics["reset_runs"] = metrics.get("reset_runs", 0) + 1
                    what = f"RST_STREAM(error_code={code}) after {k} of the response's {n_units} frames"
                    if k >= n_units:
                        for kk, m in compare(o, tr, case, what + " (i.e. after END_STREAM)"):
                            add(kk, m, "reset-complete")
                    elif o["exc"] is None:
                        add("reset-silent", f"{what} [{'sync' if sync else 'async'}]: the caller got status {o['status']} and a body of {len(o['body'])} bytes "
                            f"without an error (framed body: {len(tr['body'])} bytes)", "reset")
                    elif o["exc"]["type"] == "HANG":
                        add("reset-hang", f"{what}: {o['exc']['msg']}", "reset")
            if vio:
                break
        tags.append("h2-reset-sweep")

    dup = gen.has_dups(plan["headers"])
    if dup:
        tags.append("duplicate-headers")
    if plan.get("interim"):
        tags.append("interim")
    if case["proto"] == "h1":
        tags.append("framing-" + plan["framing"])
        tags.append("http" + plan["version"])
    else:
        for k in ("h2_pad", "h2_trailers", "h2_continuation", "h2_priority", "h2_empty_data"):
            if plan.get(k):
                tags.append(k)
    if len(tr["body"]) == 0:
        tags.append("empty-body")
    if case.get("h2_goaway_after"):
        tags.append("graceful-goaway-after-response")
    if n > FULL_ENUM_LIMIT:
        tags.append("big")
    nontrivial = metrics["structural_cut_runs"] > 0 and metrics["trunc_runs"] > 0
    return Outcome(vio, tags, nontrivial,
                   info={"wire_bytes": n, "status": tr["status"], "body_len": len(tr["body"]), "runs": metrics["executions"]},
                   metrics=metrics)


@st.composite
def cases(draw, proto=None, big=False):
    proto = proto or draw(st.sampled_from(["h1", "h1", "h2"]))
    method = draw(st.sampled_from(["GET", "GET", "GET", "HEAD", "POST"]))
    plan = draw(gen.h1_plans(big=big) if proto == "h1" else gen.h2_plans(big=big))
    c = {"proto": proto, "method": method, "plan": plan,
         "multicuts": draw(st.lists(st.lists(st.floats(0.0, 1.0, allow_nan=False, width=32), min_size=1, max_size=6), min_size=1, max_size=3)),
         "segs": draw(st.lists(st.lists(st.integers(1, 40), min_size=1, max_size=4), min_size=0, max_size=2)),
         "api": draw(st.sampled_from(["stream", "request"]))}
    if proto == "h2":
        c["h2_mode"] = draw(st.sampled_from(["alpn", "prior"]))
        c["h2_goaway_after"] = draw(st.sampled_from([False, False, True]))
    return c


RULE = ("A case is one generated well-formed response (HTTP/1.1: status, reason, version 1.0/1.1, header list with mixed case "
        "and duplicates, Content-Length / chunked (chunk sizes, extensions, trailers) / close-delimited framing, HEAD/204/304, "
        "0-2 interim 1xx, Connection: close; HTTP/2: HEADERS (+CONTINUATION, padding, priority), several DATA frames, empty DATA, "
        "trailers, interim) for GET/HEAD/POST. For each case the server byte stream is delivered unsegmented, one byte at a time, "
        "split at EVERY single position (responses <= 1200 wire bytes; bigger ones: all structural offsets + a grid), at drawn "
        "multi-cut sets and segment-size sequences, and truncated at EVERY position followed by EOF; sync and async. HTTP/2 responses are "
        "additionally reset (RST_STREAM with 9 error codes incl. NO_ERROR) after every prefix of their frames (all prefixes up to 10 frames, "
        "else the first four, the middle and the last four): an error unless END_STREAM had been sent. Every response (all framings, close-delimited "
        "included) is also run with the transport raising ReadError (a connection reset) at each read of the exchange: an error is required. "
        "Non-trivial: the case included cuts strictly inside a CRLF pair / chunk-size line / 9-byte frame header and truncation "
        "points; distinct = distinct generated response. coverage.metrics.executions counts the individual runs.")

PROP = Prop(
    P, level="exploration", rule=RULE,
    layers=[
        Layer("responses", strategy=cases, execute=execute, budget={"quick": 96, "thorough": 3200}),
        Layer("big-responses", strategy=lambda: cases(big=True), execute=execute, budget={"quick": 24, "thorough": 320}),
        __import__("vf.props.real", fromlist=["layer_for"]).layer_for("C02", {"quick": 400, "thorough": 12000}),
        Layer("real-truncation-sweep", cases=__import__("vf.props.real", fromlist=["truncation_sweep"]).truncation_sweep,
              execute=__import__("vf.props.real", fromlist=["make_execute"]).make_execute("C02")),
    ],
    assumptions=["ground truth comes from the server plan (vf/peers/h1.py, h2.py build the wire bytes and the expected observation)",
                 "chunked framing only with HTTP/1.1 status lines; heads stay below h11's 100 kB incomplete-event limit",
                 "close-delimited bodies are excluded from the truncation layer after the head (every prefix is a complete message)",
                 "any exception counts as 'an error' for truncation (which class is C15's business)"],
    explanation="Per-response bounded-exhaustive over single cut positions and truncation points; responses and multi-cut sets sampled.",
)
