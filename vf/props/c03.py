"""C03 - requests are serialised faithfully on the wire.

Generated requests (legal and definitely-illegal heads) are sent over HTTP/1.1 and HTTP/2, on first use and on
reuse of a connection, through request()/stream()/handle_request(). Oracle: the peer's *own* parser (HTTP/1.1)
or hyperframe+hpack decoding (HTTP/2) of the written bytes must give back the caller's request.
"""
from __future__ import annotations

from hypothesis import strategies as st

from .. import gen
from ..common import Outcome, V
from ..drivers import async_request, build_pool, run_async, sync_request
from ..peers.endpoints import NetConfig
from ..prop import Layer, Prop
from ..simnet import World

P = "C03"

PCHAR = "abcdefghijklmnopqrstuvwxyzABCDEFGHIJKLMNOPQRSTUVWXYZ0123456789-._~!$&'()*+,;=:@%"


@st.composite
def targets(draw):
    segs = draw(st.lists(st.text(alphabet=PCHAR, min_size=0, max_size=6), min_size=0, max_size=3))
    t = "/" + "/".join(segs)
    if draw(st.booleans()):
        t += "?" + draw(st.text(alphabet=PCHAR + "/?", min_size=1, max_size=8))
    return t


method_st = st.one_of(gen.methods.filter(lambda m: m != "HEAD"), st.sampled_from(["M-SEARCH", "PROPFIND", "x!y~z", "get"]))

ILLEGAL = [
    ("method", "space"), ("method", "crlf"), ("method", "nul"), ("method", "empty"),
    ("target", "space"), ("target", "crlf"), ("target", "nul"), ("target", "lf"),
    ("name", "space"), ("name", "crlf"), ("name", "empty"), ("name", "nul"), ("name", "colon-inside"),
    ("value", "crlf-inject"), ("value", "lf"), ("value", "cr"), ("value", "nul"),
    ("method", "trailing-lf"), ("name", "trailing-lf"), ("value", "trailing-lf"), ("target", "trailing-lf"),
    # the caller's own Host header (on HTTP/2 its value is what goes out as :authority)
    ("host", "crlf-inject"), ("host", "nul"), ("host", "lf"), ("host", "cr"),
]


@st.composite
def requests(draw, idx, illegal_ok=True):
    tok = f"q{idx}"
    headers = draw(gen.header_list(max_size=4))
    headers.insert(draw(st.integers(0, len(headers))), [draw(st.sampled_from(["x-tok", "X-Tok"])), tok])
    body_kind = draw(st.sampled_from(["none", "none", "bytes", "bytes0", "iter", "iter", "iter-empties"]))
    if body_kind == "none":
        body = None
    elif body_kind == "bytes":
        body = draw(st.binary(min_size=1, max_size=40))
    elif body_kind == "bytes0":
        body = b""
    else:
        chunks = draw(st.lists(st.binary(min_size=0 if body_kind == "iter-empties" else 1, max_size=30), min_size=0, max_size=5))
        if body_kind == "iter-empties":
            chunks.insert(draw(st.integers(0, len(chunks))), b"")
        body = {"chunks": chunks}
    total = None if body is None else (len(body) if isinstance(body, bytes) else sum(len(c) for c in body["chunks"]))
    api = draw(st.sampled_from(["request", "request", "stream", "handle"]))
    explicit = draw(st.sampled_from(["none", "none", "cl", "te", "host", "host+cl"]))
    if api == "handle":
        # no defaults are added on this path: the caller must frame the body and name the host itself
        explicit = "host+cl" if body is not None and draw(st.booleans()) else ("host+te" if body is not None else "host")
    if body is not None:
        if "cl" in explicit:
            headers.insert(draw(st.integers(0, len(headers))), [draw(st.sampled_from(["Content-Length", "content-length"])), str(total)])
        elif "te" in explicit:
            headers.insert(draw(st.integers(0, len(headers))), [draw(st.sampled_from(["Transfer-Encoding", "transfer-encoding"])), "chunked"])
    if "host" in explicit:
        headers.insert(draw(st.integers(0, len(headers))), [draw(st.sampled_from(["Host", "host", "HOST"])), "override.example:8181"])
    ext_target = draw(st.sampled_from([None, None, None, None, b"*", b"http://other.test:81/abs?x=1", b"other.test:443", b"/elsewhere;p=1?z"]))
    req = {"tok": tok, "method": draw(method_st), "target": draw(targets()), "ext_target": ext_target, "headers": headers,
           "body": body, "api": api, "illegal": None}
    if illegal_ok and draw(st.integers(0, 4)) == 0:
        req["illegal"] = list(draw(st.sampled_from(ILLEGAL)))
        req["illegal_at"] = draw(st.integers(0, 3))
    return req


@st.composite
def cases(draw):
    proto = draw(st.sampled_from(["h1", "h1", "h2-alpn", "h2-prior"]))
    n = draw(st.integers(1, 3))
    port = draw(st.sampled_from([None, None, 8080]))
    reqs = [draw(requests(i)) for i in range(n)]
    share = draw(st.sampled_from([None, None, None, "url", "headers"])) if n >= 2 else None
    if share == "url":
        # every request of the case is built from ONE httpcore.URL instance (the first request's target)
        for r in reqs:
            r["target"] = reqs[0]["target"]
    elif share == "headers":
        # every request of the case passes the SAME list object of (bytes, bytes) tuples; the token travels in the target instead
        base = [h for h in reqs[0]["headers"] if h[0].lower() not in ("x-tok", "content-length", "transfer-encoding")]
        if not any(h[0].lower() == "host" for h in base) and draw(st.booleans()):
            base.insert(0, ["Host", "shared.example"])
        for i, r in enumerate(reqs):
            r["headers"] = [list(h) for h in base]
            r["target"] = f"/t/{r['tok']}" + (r["target"] if r["target"] != "/" else "")
            r["illegal"] = None
            r["ext_target"] = None  # the token travels in the target here
            if r["api"] == "handle":
                r["api"] = "request"
    return {"proto": proto, "port": port, "requests": reqs, "sync": draw(st.booleans()), "share": share}


def corrupt(req):
    """Apply the illegal mutation to the concrete arguments."""
    where, kind = req["illegal"]
    method, headers, ext = req["method"], [list(h) for h in req["headers"]], req["ext_target"]
    bad = {"space": " ", "crlf": "\r\n", "nul": "\x00", "lf": "\n", "cr": "\r", "crlf-inject": "\r\nX-Injected: 1",
           "colon-inside": ":"}
    if kind == "trailing-lf":
        if where == "method":
            return method + "\n", headers, ext
        if where == "target":
            return method, headers, (ext if ext is not None else b"/p") + b"\n"
        i = req.get("illegal_at", 0) % len(headers)
        while headers[i][0].lower() in ("x-tok", "host", "content-length", "transfer-encoding"):
            headers.insert(0, ["X-Pad", "1"])
            i = 0
        headers[i][0 if where == "name" else 1] += "\n"
        return method, headers, ext
    if where == "host":
        hs = [h for h in headers if h[0].lower() == "host"]
        if not hs:
            headers.insert(req.get("illegal_at", 0) % (len(headers) + 1), ["Host", "h.example"])
            hs = [h for h in headers if h[0].lower() == "host"]
        hs[0][1] = "h" + bad[kind] + "x.example"
    elif where == "method":
        method = "" if kind == "empty" else method[:1] + bad[kind] + method[1:]
    elif where == "target":
        base = ext if ext is not None else b"/p"
        ext = base[:1] + bad[kind].encode() + base[1:] + b"x"
    elif where == "name":
        i = req.get("illegal_at", 0) % len(headers)
        while headers[i][0].lower() in ("x-tok", "host", "content-length", "transfer-encoding"):
            headers.insert(0, ["X-Pad", "1"])
            i = 0
        headers[i][0] = "" if kind == "empty" else "X" + bad[kind] + "y"
    else:
        i = req.get("illegal_at", 0) % len(headers)
        while headers[i][0].lower() in ("x-tok", "host", "content-length", "transfer-encoding"):
            headers.insert(0, ["X-Pad", "1"])
            i = 0
        headers[i][1] = "v" + bad[kind] + "w"
    return method, headers, ext


def base_url(case):
    scheme = "https" if case["proto"] == "h2-alpn" else "http"
    host = "a.test" + (f":{case['port']}" if case["port"] else "")
    return scheme, host


def expected_headers(case, req, headers):
    """Header list the caller asked for, after the documented defaults of request()/stream()."""
    H = [(n.encode("latin-1"), v.encode("latin-1")) for n, v in headers]
    names = {n.lower() for n, _ in H}
    if req["api"] != "handle":
        if b"host" not in names:
            scheme, host = base_url(case)
            H = [(b"Host", host.encode())] + H
        body = req["body"]
        if body is not None and b"content-length" not in names and b"transfer-encoding" not in names:
            if isinstance(body, bytes):
                H = H + [(b"Content-Length", str(len(body)).encode())]
            else:
                H = H + [(b"Transfer-Encoding", b"chunked")]
    return H


def check_exchange(case, req, ex, headers, what):
    bad = []
    body = req["body"]
    exp_body = b"" if body is None else (body if isinstance(body, bytes) else b"".join(body["chunks"]))
    H = expected_headers(case, req, headers)
    exp_target = req["ext_target"] if req["ext_target"] is not None else req["target"].encode()
    scheme, host = base_url(case)
    if ex["method"] != req["method"].encode():
        bad.append(("method", f"{what}: method on the wire {ex['method']!r} != {req['method']!r}"))
    if ex["target"] != exp_target:
        bad.append(("target", f"{what}: target on the wire {ex['target']!r} != {exp_target!r}"))
    if case["proto"] == "h1":
        hosts = [h for h in H if h[0].lower() == b"host"]
        others = [h for h in H if h[0].lower() != b"host"]
        want = [(n.lower(), v) for n, v in hosts + others]
        got = [(n.lower(), v) for n, v in ex["headers"]]
        # Host is *allowed* to lead; it may also stay where the caller put it
        want_inplace = [(n.lower(), v) for n, v in H]
        if got != want and got != want_inplace:
            bad.append(("headers", f"{what}: header list on the wire {ex['headers']!r}, caller's (with defaults) {H!r}"))
    else:
        authority = next((v for n, v in H if n.lower() == b"host"), None)
        want = [(b":method", req["method"].encode()), (b":authority", authority), (b":scheme", scheme.encode()),
                (b":path", exp_target)] + [(n.lower(), v) for n, v in H if n.lower() not in (b"host", b"transfer-encoding")]
        if ex["headers"] != want:
            bad.append(("headers", f"{what}: HTTP/2 header block {ex['headers']!r}, expected {want!r}"))
        has_body_headers = any(n.lower() in (b"content-length", b"transfer-encoding") for n, _ in H)
        if ex.get("end_stream_count", 0) != 1:
            bad.append(("end-stream", f"{what}: stream ended {ex.get('end_stream_count')} times by the client"))
        if not has_body_headers and ex["data_frames"]:
            bad.append(("end-stream", f"{what}: DATA frames {ex['data_frames']} although the request has no body headers"))
        if has_body_headers and not ex["data_frames"]:
            bad.append(("end-stream", f"{what}: request with body headers was ended on HEADERS"))
    if not ex["complete"]:
        bad.append(("incomplete", f"{what}: the request never completed on the wire"))
    elif bytes(ex["body"]) != exp_body:
        bad.append(("body", f"{what}: body on the wire {bytes(ex['body'])[:80]!r} ({len(ex['body'])} bytes) != caller's "
                    f"{exp_body[:80]!r} ({len(exp_body)} bytes)"))
    return bad


def make_net(case, script=None):
    eps = {}
    scheme, host = base_url(case)
    port = case["port"] or (443 if scheme == "https" else 80)
    if case["proto"] == "h2-alpn":
        eps[f"a.test:{port}"] = {"role": "origin", "alpn": "h2"}
    return NetConfig(endpoints=eps, h2={"script": script or []})


def pool_cfg(case):
    return {"h1": {}, "h2-alpn": {"http2": True}, "h2-prior": {"http2": True, "http1": False}}[case["proto"]]


def execute(case) -> Outcome:
    vio = []
    tags = [case["proto"]]
    proto = "h1" if case["proto"] == "h1" else "h2"
    c = dict(case)
    c["proto"] = proto if proto == "h1" else case["proto"]
    cfg = make_net(case)
    world = World(peer_factory=cfg.peer_factory)
    sync = case["sync"]
    pool = build_pool(world, pool_cfg(case), sync=sync)
    scheme, host = base_url(case)
    results = []

    share = case.get("share")
    shared_url = None
    shared_headers = None
    if share == "url":
        from ..common import import_httpcore

        shared_url = import_httpcore().URL(f"{scheme}://{host}{case['requests'][0]['target']}")
    elif share == "headers":
        shared_headers = [(n.encode("latin-1"), v.encode("latin-1")) for n, v in case["requests"][0]["headers"]]
    shared_headers_before = list(shared_headers) if shared_headers is not None else None

    def issue(req):
        method, headers, ext = (req["method"], req["headers"], req["ext_target"]) if not req["illegal"] else corrupt(req)
        spec = {"method": method, "url": f"{scheme}://{host}{req['target']}", "headers": headers, "content": req["body"],
                "api": req["api"], "ext_target": ext}
        if shared_url is not None:
            spec["url"] = shared_url
        if shared_headers is not None:
            spec["_headers_obj"] = shared_headers
        return spec, headers

    def count_ex():
        return sum(len(p.peer.all_exchanges()) for p in world.pipes)

    def req_writes():
        # bytes written that are not connection-level HTTP/2 setup
        return sum(len(o["data"]) for o in world.trace if o["kind"] == "write")

    specs = [issue(r) for r in case["requests"]]
    if sync:
        for (spec, headers) in specs:
            before = (count_ex(), req_writes(), len(world.pipes))
            out = sync_request(pool, spec)
            results.append((out, before, (count_ex(), req_writes(), len(world.pipes))))
        pool.close()
    else:
        async def go():
            for (spec, headers) in specs:
                before = (count_ex(), req_writes(), len(world.pipes))
                out = await async_request(pool, spec)
                results.append((out, before, (count_ex(), req_writes(), len(world.pipes))))
            await pool.aclose()

        run_async(go())

    exchanges = sorted((ex for p in world.pipes for ex in p.peer.all_exchanges()), key=lambda e: e["head_seq"])
    by_tok = {}
    for ex in exchanges:
        by_tok.setdefault(ex["token"], []).append(ex)
    cp = dict(case)
    cp["proto"] = "h1" if case["proto"] == "h1" else "h2"
    reused = False
    for i, req in enumerate(case["requests"]):
        out, before, after = results[i]
        (spec, headers) = specs[i]
        what = f"request {i} ({req['api']}, {case['proto']})"
        if req["illegal"]:
            tags.append("illegal-" + req["illegal"][0])
            where, kind = req["illegal"]
            if out["exc"] is None or out["exc"]["name"] != "LocalProtocolError":
                got = out["exc"]["type"] if out["exc"] else f"status {out['status']}"
                vio.append(V(P, "illegal-not-rejected", f"{what}: illegal {where} ({kind}) gave {got}, expected LocalProtocolError",
                             proto=cp["proto"], where=where))
            new_ex = after[0] - before[0]
            wrote = after[1] - before[1]
            if new_ex > 0 or (cp["proto"] == "h1" and wrote > 0):
                vio.append(V(P, "illegal-written", f"{what}: illegal {where} ({kind}) but {wrote} bytes / {new_ex} request head(s) "
                             f"reached the wire", proto=cp["proto"], where=where))
            continue
        exs = by_tok.get(req["tok"], [])
        if out["exc"] is not None:
            vio.append(V(P, "legal-rejected", f"{what}: legal request raised {out['exc']['type']}: {out['exc']['msg']}",
                         proto=cp["proto"], exc=out["exc"]["name"]))
            continue
        if len(exs) != 1:
            vio.append(V(P, "transmissions", f"{what}: {len(exs)} transmissions observed for one successful call",
                         proto=cp["proto"]))
            continue
        ex = exs[0]
        if (ex["proto"] == "h1") != (cp["proto"] == "h1"):
            vio.append(V(P, "wrong-protocol", f"{what}: spoken protocol {ex['proto']}", proto=cp["proto"]))
            continue
        for kind, msg in check_exchange(case, req, ex, headers, what):
            vio.append(V(P, kind, msg, proto=cp["proto"], api=req["api"]))
        if any(e is not ex and e["pipe"] == ex["pipe"] and e["head_seq"] < ex["head_seq"] for e in exchanges):
            reused = True
        # tags
        if req["ext_target"] is not None:
            tags.append("target-extension")
        if gen.has_dups(req["headers"]):
            tags.append("dup-headers")
        if isinstance(req["body"], dict):
            tags.append("iter-body")
            if any(len(ch) == 0 for ch in req["body"]["chunks"]):
                tags.append("empty-chunk")
        names = {n.lower() for n, _ in req["headers"]}
        for nm in ("host", "content-length", "transfer-encoding"):
            if nm in names:
                tags.append("caller-" + nm)
        tags.append("api-" + req["api"])
    if reused:
        tags.append("reuse")
    if share:
        tags.append("shared-" + share + "-object")
    if shared_headers is not None and shared_headers != shared_headers_before:
        vio.append(V(P, "caller-list-mutated", f"{case['proto']}: the header list object the caller passed to every request was changed by the library: "
                     f"{shared_headers_before!r} -> {shared_headers!r}", proto=cp["proto"]))
    # HTTP/1.1: parser must sit exactly at a message boundary at the end
    for p in world.pipes:
        leaf = p.peer.leaf()
        if getattr(leaf, "proto", None) == "h1":
            if leaf.parse_errors and not any(r["illegal"] for r in case["requests"]):
                vio.append(V(P, "unparsable", f"peer parser error on pipe {p.id}: {leaf.parse_errors[:2]}", proto="h1"))
            elif not leaf.parse_errors and leaf.parser.state == "head" and leaf.parser.buf:
                vio.append(V(P, "trailing-bytes", f"{len(leaf.parser.buf)} stray bytes after the last request on pipe {p.id}: "
                             f"{bytes(leaf.parser.buf[:40])!r}", proto="h1"))
        elif getattr(leaf, "h2", None) is not None:
            for kind, msg in leaf.h2.violations:
                vio.append(V(P, "h2-" + kind, msg, proto="h2"))
            if leaf.h2.errors:
                vio.append(V(P, "h2-undecodable", f"peer could not decode client frames: {leaf.h2.errors[:2]}", proto="h2"))
    tags = sorted(set(tags))
    nontrivial = bool(share) or any(t in tags for t in ("dup-headers", "caller-host", "caller-content-length", "caller-transfer-encoding",
                                         "empty-chunk", "reuse", "target-extension")) or any(t.startswith("illegal") for t in tags)
    return Outcome(vio, tags, nontrivial, info={"n_requests": len(case["requests"]), "pipes": len(world.pipes),
                                                "outcomes": [r[0].get("status") or r[0]["exc"]["name"] for r in results]})


# ----------------------------------------------------------------------------- transparent re-sends (GOAWAY refused)

@st.composite
def resend_cases(draw):
    case = {"first": draw(requests(0, illegal_ok=False)), "second": draw(requests(1, illegal_ok=False)),
            "sync": draw(st.booleans()), "proto": "h2-alpn", "port": None}
    if draw(st.integers(0, 2)) == 0:
        # HTTP/1.1: the second request goes out on the kept-alive connection of the first and is hit by a fault at a drawn operation
        # (a server that went away: end of stream / reset / silence); whatever is transmitted completely must be the caller's request
        case["proto"] = "h1"
        case["frac"] = draw(st.integers(0, 11))
        case["where"] = draw(st.sampled_from(["any", "read", "read"]))  # any operation of the second exchange / one of its reads
        case["fault"] = draw(st.sampled_from(["eof", "eof", "error", "timeout"]))
    return case


def execute_resend_h1(case) -> Outcome:
    sync = case["sync"]
    specs = [{"method": r["method"], "url": "http://a.test" + r["target"], "headers": r["headers"], "content": r["body"], "api": r["api"],
              "ext_target": r["ext_target"]} for r in (case["first"], case["second"])]

    def once(fault):
        cfg = make_net(case)
        world = World(peer_factory=cfg.peer_factory, faults=[dict(fault)] if fault else [])
        pool = build_pool(world, {}, sync=sync)
        outs = []
        mark = []
        if sync:
            outs.append(sync_request(pool, specs[0]))
            mark.append(world.kind_count.get("elig", 0))
            outs.append(sync_request(pool, specs[1]))
            pool.close()
        else:
            async def go():
                outs.append(await async_request(pool, specs[0]))
                mark.append(world.kind_count.get("elig", 0))
                outs.append(await async_request(pool, specs[1]))
                await pool.aclose()

            run_async(go())
        return outs, world, mark[0]

    outs, world, boundary = once(None)
    ops = [op["elig"] for op in world.trace if "elig" in op and op["elig"] >= boundary and (case.get("where", "any") == "any" or op["kind"] == "read")]
    fault = None
    if ops:
        fault = {"at": ops[case["frac"] % len(ops)], "fault": case["fault"]}
        outs, world, _ = once(fault)
    exchanges = sorted((ex for p in world.pipes for ex in p.peer.all_exchanges()), key=lambda e: e["head_seq"])
    second = [e for e in exchanges if e["token"] == "q1" and e["complete"]]
    body = case["second"]["body"]
    one_shot = isinstance(body, dict)
    vio = []
    for j, ex in enumerate(second):
        for kind, msg in check_exchange(case, case["second"], ex, case["second"]["headers"],
                                        f"[{'sync' if sync else 'async'}] HTTP/1.1, reused connection hit by {fault}: complete transmission {j + 1} of the request"):
            vio.append(V(P, "resend-" + kind, msg, proto="h1", body="iterator" if one_shot else ("bytes" if body is not None else "none"), transmission=j + 1))
    tags = ["h1-fault-on-reused-connection", "fault-" + case["fault"], "transmissions=" + str(len(second)),
            "body-" + ("none" if body is None else "bytes" if isinstance(body, bytes) else "iter")]
    return Outcome(vio, tags, bool(world.fired_faults) and len(world.pipes[0].peer.all_exchanges()) >= 2,
                   info={"transmissions": len(second), "outcomes": [o.get("status") or o["exc"]["name"] for o in outs]})


def execute_resend(case) -> Outcome:
    """Second request's stream is refused by GOAWAY(last-stream-id = 1): it is re-sent on a new connection and every
    transmission must decode to the same request."""
    if case["proto"] == "h1":
        return execute_resend_h1(case)
    vio = []
    script = [{"when": {"event": "headers", "n": 1}, "do": [{"goaway": {"last": "below"}}]}]
    cfg = make_net(case, script=script)
    world = World(peer_factory=cfg.peer_factory)
    sync = case["sync"]
    pool = build_pool(world, {"http2": True}, sync=sync)
    reqs = [case["first"], case["second"]]
    outs = []
    specs = []
    for r in reqs:
        specs.append({"method": r["method"], "url": "https://a.test" + r["target"], "headers": r["headers"], "content": r["body"],
                      "api": r["api"], "ext_target": r["ext_target"]})
    if sync:
        for s in specs:
            outs.append(sync_request(pool, s))
        pool.close()
    else:
        async def go():
            for s in specs:
                outs.append(await async_request(pool, s))
            await pool.aclose()

        run_async(go())
    exchanges = sorted((ex for p in world.pipes for ex in p.peer.all_exchanges()), key=lambda e: e["head_seq"])
    second = [e for e in exchanges if e["token"] == "q1"]
    tags = ["resend" if len(second) >= 2 else "no-resend", "body-" + ("none" if case["second"]["body"] is None else
                                                                     "bytes" if isinstance(case["second"]["body"], bytes) else "iter")]
    body = case["second"]["body"]
    one_shot = isinstance(body, dict)
    for j, ex in enumerate(second):
        for kind, msg in check_exchange(case, case["second"], ex, case["second"]["headers"],
                                        f"transmission {j + 1} of the re-sent request"):
            vio.append(V(P, "resend-" + kind, msg, proto="h2", body="iterator" if one_shot else ("bytes" if body is not None else "none"),
                         transmission=j + 1))
    return Outcome(vio, tags, len(second) >= 2, info={"transmissions": len(second),
                                                       "outcomes": [o.get("status") or o["exc"]["name"] for o in outs]})


RULE = ("A case is 1-3 sequential requests to one origin over HTTP/1.1, HTTP/2 via ALPN or HTTP/2 prior knowledge, sync or async: "
        "method (common + unusual tokens), origin-form target with params/query or the 'target' extension ('*', absolute-form, "
        "authority-form), 0-5 headers with mixed case and duplicates, optional caller Host / Content-Length / Transfer-Encoding, "
        "body None / bytes / empty bytes / iterator chunkings incl. empty chunks, through request(), stream() or "
        "handle_request(Request); in some cases all requests share one httpcore.URL instance or one header list object (reused caller objects); one request in five gets a definitely-illegal head (CR, LF, NUL, space, empty in method / target / "
        "header name / value). Second layer: a request whose stream a GOAWAY refuses, checked on every transmission; and (HTTP/1.1) a request on a reused keep-alive connection that is hit by a fault (end of stream, reset, silence) at a drawn operation: every COMPLETE transmission of it must be the caller's request. Non-trivial: "
        "duplicates, caller-supplied Host/CL/TE, empty chunk, reuse, target extension or illegal head; distinct = distinct case.")

PROP = Prop(
    P, level="exploration", rule=RULE,
    layers=[
        Layer("requests", strategy=cases, execute=execute, budget={"quick": 4000, "thorough": 120000}),
        Layer("resend", strategy=resend_cases, execute=execute_resend, budget={"quick": 600, "thorough": 20000}),
        __import__("vf.props.real", fromlist=["layer_for"]).layer_for("C03", {"quick": 240, "thorough": 6000}),
    ],
    assumptions=["layer real-backends: uploads (bytes, iterators, 60 kB, 3 MB) through httpcore's own sync / anyio / trio backends over real sockets (partial "
                 "socket writes, TLS records, TLS-in-TLS, HTTP/2 flow control): the peer model must receive method and body byte for byte, exactly once",
                 "the peer's own HTTP/1.1 request parser (vf/peers/h1.py) and hyperframe+hpack decoding (vf/peers/h2.py) are the independent decoders",
                 "header names are compared case-insensitively on HTTP/1.1 (the property speaks of order and values)",
                 "connection-specific headers (Connection, TE, Upgrade, Keep-Alive, Cookie folding) and surrounding whitespace are a grey zone kept out of the generator"],
    explanation="Sampled request space; every transmission observed on any pipe is attributed by token and decoded independently.",
)
