"""C04 - the connection limit is never exceeded. Engine: vf/props/conc.py (Monitor)."""
from __future__ import annotations

from ..prop import Layer, Prop
from .conc import goaway_scenarios, make_execute, scenarios

RULE = ("Same generated concurrent histories as C01, biased to small limits (max_connections 1-3, 2-5 callers, 1-3 origins, HTTP/1.1 and HTTP/2, "
        "direct and proxied, faults, a cancellation, idle evictions for other origins). Oracle, evaluated after EVERY simulated network op and at "
        "every quiescence: len(pool.connections) <= N, and the number of open streams - not counting streams of connection objects that had "
        "already left pool.connections and carry no request byte after that moment - is <= N. Second layer: HTTP/2-only histories in which the peer always sends a truthful GOAWAY at a drawn event "
        "while a caller holds a response open (a connection that stops accepting requests but still carries streams). Non-trivial: some request was queued and a "
        "connection left the pool or a fault/cancellation occurred; distinct = distinct scenario.")

PROP = Prop(
    "C04", level="exploration", rule=RULE,
    layers=[Layer("histories", strategy=lambda: scenarios(max_callers=5, limits=(1, 1, 2, 2, 3)), execute=make_execute("C04"),
                  budget={"quick": 3000, "thorough": 60000}),
            Layer("h2-goaway", strategy=goaway_scenarios, execute=make_execute("C04"), budget={"quick": 1200, "thorough": 30000}),
            __import__("vf.props.real", fromlist=["concurrent_layer"]).concurrent_layer("C04", {"quick": 320, "thorough": 12000})],
    assumptions=["pool.connections is sampled at every op boundary of the simulated network and at every quiescence",
                 "a stream still being established counts against the limit (it is reachable from no evicted connection)",
                 "layer real-concurrent: the SERVER side of real loopback sockets counts, at every accept, the earlier connections whose client end is still "
                 "open (POLLRDHUP); an apparent overshoot is re-checked for 0.3 s so that a connection the pool has dropped and is closing is not counted"],
    explanation="Schedule space sampled; the bound is checked at every op boundary of every run (coverage.metrics.monitor_checks).",
)
