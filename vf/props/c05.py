"""C05 - failed and cancelled requests give their pool slot back (fault enumeration).
C06 shares these executions (vf/props/c06.py): every stream that is opened is owned, then closed.

Enumerated layer: base scenarios = connection kind x context x request shape. Each base scenario is first run
fault-free (deterministic fair schedule) to count its fault-eligible network ops and the victim's suspension
points; then one run per (op index, documented fault kind of that op) and one run per (suspension index,
cancellation style). Random layer: Hypothesis draws kind/context/shape, 1-2 fault or cancel positions and a schedule.
Oracle, after every caller has returned and the system is quiescent: the pool counts no request, no connection is
stuck, a behavioural capacity probe (max_connections held-open requests - the first to the victim's origin, the others to fresh origins - pool timeout 0) succeeds;
ledger: every open stream is owned by a pooled connection, and none is open after the pool is closed.
"""
from __future__ import annotations

import gc

from hypothesis import strategies as st

from ..aio import AioRun, Caller
from ..common import Outcome, V
from ..drivers import async_request
from ..prop import Layer, Prop
from ..simnet import AsyncSimStream, World
from ..topo import KINDS, is_h2, topo

KIND_LIST = ["tunnel-refused", "tunnel-refused-keepalive", "socks-refused", "socks-auth-refused", "direct-h1", "direct-tls-h1", "direct-h2", "prior-h2", "forward", "forward-https-proxy", "tunnel-h1", "tunnel-h2",
             "tunnel-https-proxy-h1", "socks-h1", "socks-auth-h1", "socks-tls-h1", "socks-auth-tls-h2", "uds-h1", "uds-tls-h1", "uds-tls-h2", "tls-h2-forced"]
QUICK_KINDS = ["uds-tls-h1", "tls-h2-forced", "tunnel-refused", "socks-refused", "direct-h1", "direct-tls-h1", "direct-h2", "tunnel-h1", "tunnel-h2", "socks-auth-h1", "socks-tls-h1", "forward"]
CONTEXTS = ["alone", "queued-other", "sibling", "pool-timeout"]
SHAPES = ["get", "post2", "stream2"]
FAULTS = {"connect": ["ConnectError", "ConnectTimeout"], "start_tls": ["ConnectError", "ConnectTimeout"],
          "read": ["ReadError", "ReadTimeout", "eof", "garbage"], "write": ["WriteError", "WriteTimeout"]}
STYLES = ["task", "scope"]


REJECTED_SHAPES = ["bad-header-value", "bad-method", "content-length-too-short", "content-length-too-long"]


def step_for(scheme, host, tok, shape):
    spec = {"method": "GET", "url": f"{scheme}://{host}/t/{tok}"}
    # requests that httpcore itself must refuse (LocalProtocolError): a failed request like any other - its slot must come back
    if shape == "bad-header-value":
        spec["headers"] = [["x-tok", tok], ["x-bad", "line1\r\nInjected: yes"]]
        return {"spec": spec, "tok": tok, "mode": "read_all"}
    if shape == "bad-method":
        spec["method"] = "GE T"
        return {"spec": spec, "tok": tok, "mode": "read_all"}
    if shape in ("content-length-too-short", "content-length-too-long"):
        spec.update(method="POST", content={"chunks": [b"first-", b"second"]}, headers=[["Content-Length", "5" if shape.endswith("short") else "50"]])
        return {"spec": spec, "tok": tok, "mode": "read_all"}
    if shape == "post2":
        spec.update(method="POST", content={"chunks": [b"first-", b"second"]})
        return {"spec": spec, "tok": tok, "mode": "read_all"}
    if shape == "stream2":
        return {"spec": spec, "tok": tok, "mode": {"read_chunks": 2}}
    return {"spec": spec, "tok": tok, "mode": "read_all"}


def plans_for(case):
    plans = {"v0": {"framing": "chunked", "chunks": [4], "body_len": 12, "h2_frames": [5]}}
    if case["context"] == "sibling-first":
        # the sibling's answer comes in several DATA frames / chunks, so that parts of it can be read by different flows of control
        plans["s1"] = {"framing": "chunked", "chunks": [300], "body_len": 1500, "h2_frames": [300]}
    return plans


def build(case):
    kind, ctx, shape = case["kind"], case["context"], case["shape"]
    maxc = case.get("max_connections") or (1 if ctx in ("queued-other", "pool-timeout") else 2)
    extra = {"max_connections": maxc}
    if case.get("retries"):
        extra["retries"] = case["retries"]
    plans = plans_for(case)
    if ctx == "reader-first":
        # HTTP/2 only: an older stream is blocked reading (its answer comes only after the victim's request has arrived), so that what the server
        # says during the victim's upload is read by ANOTHER flow of control
        plans["s1"] = {"after_request": "v0", "body_len": 7, "h2_frames": [7]}
    pool_cfg, cfg, scheme = topo(kind, pool_extra=extra, h2=case.get("h2"),
                                 plans=plans,
                                 hosts=("a.test", "b.test", "p0.test", "p1.test", "p2.test", "p3.test"))
    faults = [dict(f) for f in case.get("faults", [])]
    world = World(peer_factory=cfg.peer_factory, faults=faults)
    world.tls_failure_leaves_open = bool(case.get("tls_leaves_open"))
    callers = [Caller(0, [step_for(scheme, "a.test", "v0", shape)], cancel=case.get("cancel"))]
    if ctx == "pool-timeout":
        # the victim waits for the only slot with a pool timeout while caller 1 holds a response open; the holder lets go
        # only after the victim is done, so under the fair schedule the victim's deadline fires (PoolTimeout)
        callers[0].program[0]["spec"]["timeouts"] = {"pool": 2.0}
        hold = step_for(scheme, "b.test", "h1", "get")
        hold["mode"] = "hold"
        hold["release_after"] = [0]
        callers = [callers[0], Caller(1, [hold])]
        callers[0], callers[1] = callers[0], callers[1]
        callers[1].start_first = True
    elif ctx == "queued-other":
        callers.append(Caller(1, [step_for(scheme, "b.test", "o1", "get")]))
    elif ctx == "sibling":
        callers.append(Caller(1, [step_for(scheme, "a.test", "s1", "get")]))
    elif ctx == "reader-first":
        callers.append(Caller(1, [step_for(scheme, "a.test", "s1", "get")]))
        callers[1].start_first = True
    elif ctx == "held-sibling":
        # an earlier response on the same origin (HTTP/2: an earlier stream of the same connection) stays OPEN until the victim is done
        hold = step_for(scheme, "a.test", "s1", "get")
        hold["mode"] = "hold"
        hold["release_after"] = [0]
        callers.append(Caller(1, [hold]))
        callers[1].start_first = True
    elif ctx == "sibling-first":
        # an upload of another caller to the same origin is under way when the victim arrives (on HTTP/2: same connection, the sibling's writes
        # hold the connection's write lock while they are in flight)
        callers.append(Caller(1, [step_for(scheme, "a.test", "s1", "post2")]))
        callers[1].start_first = True
    elif ctx == "sibling2":
        callers.append(Caller(1, [step_for(scheme, "a.test", "s1", "post2")]))
        callers.append(Caller(2, [step_for(scheme, "b.test", "o2", "get")]))
    return world, pool_cfg, callers, scheme, maxc


def owned_pipes(pool):
    """Pipes reachable from the pool's connection objects (attribute graph walk)."""
    seen = set()
    pipes = set()
    stack = list(pool.connections)
    depth = 0
    while stack and depth < 20000:
        depth += 1
        obj = stack.pop()
        if id(obj) in seen:
            continue
        seen.add(id(obj))
        if isinstance(obj, AsyncSimStream):
            pipes.add(obj.pipe.id)
            continue
        d = getattr(obj, "__dict__", None)
        if d is None:
            continue
        for v in d.values():
            if isinstance(v, (str, bytes, int, float, bool, type(None))):
                continue
            mod = type(v).__module__ or ""
            if mod.startswith("httpcore") or isinstance(v, AsyncSimStream):
                stack.append(v)
    return pipes


def conn_state(c):
    try:
        info = c.info()
    except Exception as exc:  # pragma: no cover
        info = f"info() raised {exc!r}"
    return info


async def epilogue(run):
    """Runs ungated after all callers are done: state oracle, ledger, behavioural probe, pool close, final ledger."""
    pool = run.pool
    world = run.world
    res = run.result = {}
    world.faults = []  # injected faults belong to the scenario, never to the probe
    res["repr"] = repr(pool)
    res["conns"] = [(conn_state(c), c.is_idle(), c.is_closed(), c.has_expired(), c.is_available()) for c in pool.connections]
    res["open_before"] = [p.id for p in world.open_pipes()]
    res["owned"] = sorted(owned_pipes(pool))
    # behavioural probe: max_connections held-open requests to fresh origins must all be served without waiting
    n = run.pool_cfg.get("max_connections", 10)
    scheme = run.scheme
    held = []
    probe = []
    world.current_actor = "probe"
    for i in range(n):
        # the first probe goes to the victim's own origin (a dead connection to it must not block it), the others to fresh origins
        host = "a.test" if i == 0 else f"p{i}.test"
        # a pooled connection whose server went away as part of the injected fault (bytes / end of stream the client has not read yet) looks
        # idle and healthy to the client: the first request on it fails through no fault of the pool and frees the slot - one more try then
        dead_idle = any(p.open and (p.eof or p.broken) for p in world.pipes)
        for attempt in (0, 1):
            cm = pool.stream("GET", f"{scheme}://{host}/t/probe{i}", extensions={"timeout": {"pool": 0}})
            try:
                resp = await cm.__aenter__()
                held.append(cm)
                probe.append(resp.status)
                xt = [bytes(v) for n, v in resp.headers if bytes(n).lower() == b"x-tok"]
                if xt != [f"probe{i}".encode()]:
                    res.setdefault("probe_wrong", []).append((i, resp.status, xt))  # the answer to ANOTHER request (judged by C01's layer)
                break
            except BaseException as exc:
                if attempt == 0 and dead_idle and type(exc).__name__ in ("RemoteProtocolError", "ReadError", "WriteError", "LocalProtocolError"):
                    res.setdefault("probe_retried", []).append(type(exc).__name__)
                    continue
                probe.append(type(exc).__name__)
                break
    for cm in held:
        try:
            await cm.__aexit__(None, None, None)
        except BaseException:
            pass
    res["probe"] = probe
    res["repr_after_probe"] = repr(pool)
    await pool.aclose()
    world.current_actor = None
    res["open_after_close"] = [(p.id, p.target) for p in world.open_pipes()]


def classify_trigger(case, world, callers):
    """(trigger, phase) for signatures."""
    if case["shape"] in REJECTED_SHAPES and not case.get("cancel") and not world.fired_faults:
        out = callers[0].results[0] if callers[0].results else None
        if out is not None and out.get("exc") is not None:
            return "rejected-" + out["exc"]["name"], case["shape"]
        return "rejected", "not-reached"
    if case.get("cancel"):
        c = callers[0]
        if c.cancel_fired_at is None:
            return "cancel-" + case["cancel"]["style"], "not-reached"
        # the site that matters is where the cancellation was *delivered* (first CancelledError thrown into the caller)
        site = c.delivery_site or c.cancel_site
        return "cancel-" + case["cancel"]["style"], (site[0] if site else "outside-httpcore")
    if world.fired_faults:
        f = world.fired_faults[0]
        pipe = world.pipes[f["pipe"]] if f["pipe"] is not None and f["pipe"] < len(world.pipes) else None
        phase = f["kind"]
        if pipe is not None and f["kind"] in ("read", "write"):
            role = type(pipe.peer).__name__
            negotiating = (role == "SocksPeer" or getattr(pipe.peer, "is_proxy", False) and KINDS and pipe.peer.connects is not None) and pipe.neg_written is None
            if role == "SocksPeer" and pipe.neg_written is None:
                phase = "negotiate-" + f["kind"]
            elif getattr(pipe.peer, "is_proxy", False) and pipe.neg_written is None and (pipe.peer.connects or not pipe.peer.exchanges or pipe.peer.exchanges[0]["method"] == b"CONNECT"):
                if any(k.startswith("tunnel") for k in [case["kind"]]):
                    phase = "negotiate-" + f["kind"]
        return "fault-" + f["fault"], phase
    return "none", "none"


def run_case(case, record_sites=False):
    world, pool_cfg, callers, scheme, maxc = build(case)
    from ..trio_run import make_run

    run = make_run(case.get("runtime"))(world, pool_cfg, callers, choices=case.get("choices", ()), segs=case.get("segs", ()), epilogue=epilogue,
                                               policy=case.get("policy"), bursts=case.get("bursts", ()), late=case.get("late", ()), dsegs=case.get("dsegs", ()))
    run.scheme = scheme
    run.record_sites = record_sites
    run.result = {}
    run.run()
    return run, world, callers


def judge(case, run, world, callers):
    """-> (list of C05 violations, list of C06 violations, fired: bool)"""
    v5, v6 = [], []
    res = run.result
    family = case["kind"].split("-")[0]
    trigger, phase = classify_trigger(case, world, callers)
    fired = trigger != "none" and phase != "not-reached"
    base = dict(conn=case["kind"] if family in ("direct", "prior") else family, trigger=trigger, site=phase)
    if case.get("runtime") == "trio":
        base["runtime"] = "trio"
    if case.get("cancel"):
        c0 = callers[0]
        base["in_shield"] = bool(c0.in_shield_at_delivery if c0.delivery_site is not None else c0.in_shield_at_cancel)
        from .conc import own_write_parked

        base["own_write_parked"] = own_write_parked(c0)
        if c0.cancel_site and c0.delivery_site and c0.cancel_site[0] != c0.delivery_site[0]:
            base["requested_at"] = c0.cancel_site[0]
    what = (("[trio] " if case.get("runtime") == "trio" else "") + f"{case['kind']}/{case['context']}/{case['shape']} faults={case.get('faults')} cancel={case.get('cancel')} "
            f"(trigger {trigger} at {phase}{', inside a cancellation shield' if base.get('in_shield') else ''})")
    if run.overflow:
        v5.append(V("C05", "livelock", f"{what}: scheduler step limit exceeded", **base))
        return v5, v6, fired
    net_wait = run.deadlock is not None and run.deadlock["parked"] and "Requests: 0 active, 0 queued" in res.get("repr", "")
    if run.deadlock is not None and net_wait:
        # survivors wait for network data that never comes while the pool itself is clean: not a pool-slot problem
        # (that is C07 / C12 territory, e.g. a cancelled HTTP/2 write that swallowed a sibling's frames)
        pass
    elif run.deadlock is not None:
        v5.append(V("C05", "deadlock", f"{what}: callers {run.deadlock['blocked']} blocked for ever with nothing enabled "
                    f"(parked ops {run.deadlock['parked']}); pool {res.get('repr')}", **base))
    for c in callers:
        if c.error is not None:
            v5.append(V("C05", "caller-crashed", f"{what}: caller {c.id} ended with {c.error}", **base))
    if not res:
        return v5, v6, fired
    # (1) the pool counts no request of a finished caller
    if "Requests: 0 active, 0 queued" not in res["repr"]:
        v5.append(V("C05", "request-not-removed", f"{what}: all callers have returned but the pool reports {res['repr']}", **base))
    # (2) no stuck connection
    for info, idle, closed, expired, avail in res["conns"]:
        if not (idle or closed or expired):
            state = info.split(", ")[2] if info.count(", ") >= 2 else info
            v5.append(V("C05", "stuck-connection", f"{what}: no request is in flight but the pool keeps a connection that is neither idle, "
                        f"closed nor expired: {info!r} (available={avail})", state=state, **base))
    # (3) behavioural probe
    from ..topo import REFUSALS

    ok_probe = (200, "ProxyError") if case["kind"] in REFUSALS else (200,)
    if any(p not in ok_probe for p in res["probe"]):
        v5.append(V("C05", "capacity-lost", f"{what}: capacity probe with max_connections={run.pool_cfg.get('max_connections')} got {res['probe']} "
                    f"(pool before probe: {res['repr']}, connections {[c[0] for c in res['conns']]})", **base))
    # ---- ledger (C06)
    unowned = [p for p in res["open_before"] if p not in res["owned"]]
    if unowned:
        tg = [world.pipes[p].target for p in unowned]
        v6.append(V("C06", "stream-unowned", f"{what}: stream(s) {unowned} to {tg} are open but not reachable from any pooled connection "
                    f"(pool: {res['repr']})", **base))
    if res["open_after_close"]:
        v6.append(V("C06", "stream-open-after-pool-close", f"{what}: streams still open after the pool was closed: {res['open_after_close']}", **base))
    return v5, v6, fired


# ----------------------------------------------------------------------------- enumeration

_BASE_CACHE: dict = {}


def base_counts(kind, ctx, shape, runtime=None):
    key = (kind, ctx, shape, runtime)
    if key not in _BASE_CACHE:
        run, world, callers = run_case({"kind": kind, "context": ctx, "shape": shape, "runtime": runtime}, record_sites=True)
        elig = [(o["elig"], o["kind"]) for o in world.trace if "elig" in o and o["actor"] != "probe"]
        # cancellation points: every suspension index, except that a run of consecutive suspensions at the same source line
        # (e.g. the 99 semaphore acquisitions of the HTTP/2 connection set-up) is represented by its first, second and last
        sites = callers[0].sites
        points = []
        i = 0
        while i < len(sites):
            j = i
            while j + 1 < len(sites) and sites[j + 1] == sites[i]:
                j += 1
            for k in sorted({i, min(i + 1, j), j}):
                points.append(k + 1)
            i = j + 1
        _BASE_CACHE[key] = (elig, points)
    return _BASE_CACHE[key]


def enum_cases(tier):
    kinds = KIND_LIST if tier == "thorough" else QUICK_KINDS
    cases = []
    for kind in kinds:
        for ctx in CONTEXTS:
            for shape in SHAPES:
                if tier == "quick" and (KIND_LIST.index(kind) + CONTEXTS.index(ctx) + SHAPES.index(shape)) % 3 != 0 and not (ctx == "alone" and shape == "post2"):
                    continue
                elig, points = base_counts(kind, ctx, shape)
                for idx, opkind in elig:
                    for fault in FAULTS[opkind]:
                        cases.append({"kind": kind, "context": ctx, "shape": shape, "faults": [{"at": idx, "fault": fault}]})
                        if opkind == "start_tls":
                            # the same handshake failures under a backend that does not close the stream itself, alone and with the pool's
                            # retries setting (a retried attempt must not forget the stream of the failed one)
                            cases.append({"kind": kind, "context": ctx, "shape": shape, "faults": [{"at": idx, "fault": fault}], "tls_leaves_open": True})
                            cases.append({"kind": kind, "context": ctx, "shape": shape, "faults": [{"at": idx, "fault": fault}], "tls_leaves_open": True, "retries": 2})
                for k in points:
                    for style in STYLES:
                        cases.append({"kind": kind, "context": ctx, "shape": shape, "cancel": {"style": style, "at": k}})
        # requests the client itself refuses (illegal head, Content-Length that does not match the body): no fault, no cancellation
        for ctx in CONTEXTS:
            for shape in REJECTED_SHAPES:
                for runtime in (None, "trio"):
                    cases.append({"kind": kind, "context": ctx, "shape": shape, "runtime": runtime})
    return cases


def trio_cases(tier):
    """The same base scenarios on the trio runtime (httpcore's trio branches of Lock / Event / Semaphore / shield / fail_after): every suspension
    point of the victim x trio.CancelScope.cancel(), and every fault position x kind. quick: a fixed quarter of the kind/context/shape grid."""
    kinds = KIND_LIST if tier == "thorough" else QUICK_KINDS
    cases = []
    for kind in kinds:
        for ctx in CONTEXTS:
            for shape in SHAPES:
                if tier == "quick" and (KIND_LIST.index(kind) + 2 * CONTEXTS.index(ctx) + SHAPES.index(shape)) % 4 != 0:
                    continue
                elig, points = base_counts(kind, ctx, shape, "trio")
                for k in points:
                    cases.append({"kind": kind, "context": ctx, "shape": shape, "runtime": "trio", "cancel": {"style": "scope", "at": k}})
                for idx, opkind in elig:
                    for fault in FAULTS[opkind]:
                        if tier == "quick" and fault in ("ConnectTimeout", "ReadTimeout", "WriteTimeout", "garbage"):
                            continue  # quick: one error kind per op (+ eof); thorough: every documented kind
                        cases.append({"kind": kind, "context": ctx, "shape": shape, "runtime": "trio", "faults": [{"at": idx, "fault": fault}]})
    return cases


def tags_for(case, fired, world):
    tags = [case["kind"], "ctx-" + case["context"], "shape-" + case["shape"], "runtime-" + (case.get("runtime") or "asyncio")]
    if case.get("cancel"):
        tags.append("cancel-" + case["cancel"]["style"])
    for f in world.fired_faults:
        tags.append("fault-" + f["kind"])
    if not fired:
        tags.append("trigger-not-reached")
    return tags


def make_execute(prop_id):
    def execute(case) -> Outcome:
        run, world, callers = run_case(case)
        v5, v6, fired = judge(case, run, world, callers)
        vio = v5 if prop_id == "C05" else v6
        nontrivial = fired and (prop_id == "C05" or len(world.pipes) > 0)
        trig = case.get("cancel") or case.get("faults")
        key = [case["kind"], case["context"], case["shape"], trig, case.get("choices"), case.get("segs"), case.get("runtime")]
        return Outcome(vio[:6], tags_for(case, fired, world), nontrivial, key=key,
                       info={"pool": run.result.get("repr"), "probe": run.result.get("probe"), "steps": run.steps,
                             "callers": [[(o.get("status") or (o["exc"] or {}).get("name")) for o in c.results] + (["cancelled"] if c.cancelled else [])
                                         for c in callers]})
    return execute


# ----------------------------------------------------------------------------- sync pool: fault enumeration on the inline driver

def sync_cases(tier):
    from ..drivers import build_pool, sync_request  # noqa: F401

    cases = []
    kinds = [k for k in KIND_LIST]
    for kind in kinds:
        for shape in SHAPES:
            elig = _sync_base(kind, shape)
            for idx, opkind in elig:
                for fault in FAULTS[opkind]:
                    cases.append({"kind": kind, "shape": shape, "faults": [{"at": idx, "fault": fault}], "sync": True})
    return cases


_SYNC_BASE: dict = {}


def _sync_run(case):
    from ..drivers import build_pool, sync_request

    kind, shape = case["kind"], case["shape"]
    pool_cfg, cfg, scheme = topo(kind, pool_extra={"max_connections": 1},
                                 plans={"v0": {"framing": "chunked", "chunks": [4], "body_len": 12, "h2_frames": [5]}},
                                 hosts=("a.test", "b.test", "p0.test", "p1.test"))
    world = World(peer_factory=cfg.peer_factory, faults=[dict(f) for f in case.get("faults", [])])
    pool = build_pool(world, pool_cfg, sync=True)
    step = step_for(scheme, "a.test", "v0", shape)
    spec = dict(step["spec"])
    if step["mode"] != "read_all":
        spec.update(api="stream", read=step["mode"]["read_chunks"])
    out = sync_request(pool, spec)
    world_faults_fired = list(world.fired_faults)
    world.victim_ops = len(world.trace)
    world.faults = []
    res = {"repr": repr(pool), "conns": [(conn_state(c), c.is_idle(), c.is_closed(), c.has_expired(), c.is_available()) for c in pool.connections],
           "open_before": [p.id for p in world.open_pipes()]}
    # ownership walk works on the sync classes too (SimStream objects)
    from ..simnet import SimStream

    seen, owned, stack = set(), set(), list(pool.connections)
    while stack:
        obj = stack.pop()
        if id(obj) in seen:
            continue
        seen.add(id(obj))
        if isinstance(obj, SimStream):
            owned.add(obj.pipe.id)
            continue
        for v in getattr(obj, "__dict__", {}).values():
            if (type(v).__module__ or "").startswith("httpcore") or isinstance(v, SimStream):
                stack.append(v)
    res["owned"] = sorted(owned)
    probe = []
    for i, host in enumerate(["a.test", "p1.test"]):
        o = sync_request(pool, {"method": "GET", "url": f"{scheme}://{host}/t/probe{i}", "timeouts": {"pool": 0}})
        probe.append(o.get("status") or o["exc"]["name"])
    res["probe"] = probe
    pool.close()
    res["open_after_close"] = [(p.id, p.target) for p in world.open_pipes()]
    return world, out, res, world_faults_fired


def _sync_base(kind, shape):
    key = (kind, shape)
    if key not in _SYNC_BASE:
        world, out, res, _ = _sync_run({"kind": kind, "shape": shape})
        _SYNC_BASE[key] = [(o["elig"], o["kind"]) for o in world.trace[:world.victim_ops] if "elig" in o]
    return _SYNC_BASE[key]


def make_sync_execute(prop_id):
    def execute(case) -> Outcome:
        from ..topo import REFUSALS

        world, out, res, fired = _sync_run(case)
        v5, v6 = [], []
        family = case["kind"].split("-")[0]
        f = fired[0] if fired else None
        base = dict(conn=case["kind"] if family in ("direct", "prior") else family, trigger="fault-" + f["fault"] if f else "none",
                    site=f["kind"] if f else "none", variant="sync")
        what = f"[sync] {case['kind']}/alone/{case['shape']} faults={case.get('faults')}"
        if out["exc"] is not None and out["exc"]["type"] == "HANG":
            v5.append(V("C05", "hang", f"{what}: {out['exc']['msg']}", **base))
        if "Requests: 0 active, 0 queued" not in res["repr"]:
            v5.append(V("C05", "request-not-removed", f"{what}: the caller has returned but the pool reports {res['repr']}", **base))
        for info, idle, closed, expired, avail in res["conns"]:
            if not (idle or closed or expired):
                state = info.split(", ")[2] if info.count(", ") >= 2 else info
                v5.append(V("C05", "stuck-connection", f"{what}: the pool keeps a connection that is neither idle, closed nor expired: {info!r}", state=state, **base))
        ok_probe = (200, "ProxyError") if case["kind"] in REFUSALS else (200,)
        if any(p not in ok_probe for p in res["probe"]):
            v5.append(V("C05", "capacity-lost", f"{what}: sequential probes at max_connections=1 got {res['probe']} (pool before: {res['repr']}, {[c[0] for c in res['conns']]})", **base))
        unowned = [p for p in res["open_before"] if p not in res["owned"]]
        if unowned:
            v6.append(V("C06", "stream-unowned", f"{what}: stream(s) {unowned} open but not reachable from any pooled connection (pool: {res['repr']})", **base))
        if res["open_after_close"]:
            v6.append(V("C06", "stream-open-after-pool-close", f"{what}: streams still open after pool.close(): {res['open_after_close']}", **base))
        vio = v5 if prop_id == "C05" else v6
        return Outcome(vio[:5], [case["kind"], "sync", "shape-" + case["shape"]] + (["fault-" + f["kind"]] if f else []), bool(f),
                       info={"outcome": out.get("status") or out["exc"]["name"], "probe": res["probe"], "pool": res["repr"]})
    return execute


@st.composite
def random_cases(draw):
    kind = draw(st.sampled_from(KIND_LIST))
    ctx = draw(st.sampled_from(CONTEXTS + ["sibling2"]))
    shape = draw(st.sampled_from(SHAPES))
    case = {"kind": kind, "context": ctx, "shape": shape, "max_connections": draw(st.sampled_from([1, 1, 2, 3])),
            "choices": draw(st.lists(st.integers(0, 7), max_size=30)), "segs": draw(st.lists(st.sampled_from([0, 1, 3, 10, 100]), max_size=4))}
    if draw(st.integers(0, 3)) == 0:
        case["runtime"] = "trio"
    case["bursts"] = draw(st.sampled_from([[], [], [], [1], [0, 1], [2, 0, 1]]))
    case["late"] = draw(st.sampled_from([[], [], [], [1], [0, 1]]))
    n = draw(st.integers(1, 2))
    faults = []
    for _ in range(n):
        if draw(st.integers(0, 2)) == 0 and "cancel" not in case:
            case["cancel"] = {"style": "scope" if case.get("runtime") == "trio" else draw(st.sampled_from(STYLES)), "at": draw(st.integers(1, 40))}
        else:
            at = draw(st.integers(0, 40))
            faults.append({"at": at, "fault": draw(st.sampled_from(["error", "error", "timeout", "eof", "garbage"]))})
    case["faults"] = faults
    return case


def normalise_faults(case):
    """A drawn fault kind must be a documented failure of the op it lands on: remap by op kind at run time."""
    return case


RULE5 = ("enumerated layer: connection kind (direct h1 plain/TLS, h2 via ALPN / prior knowledge, forward proxy (http/https), CONNECT tunnel "
         "h1/h2/https-proxy, SOCKS5 plain/auth/TLS/h2) x context (alone; one request for another origin queued at max_connections=1; a sibling "
         "request to the same origin) x shape (GET, POST with a 2-chunk body, streamed response closed after 2 chunks). Each base scenario is "
         "run fault-free under the fair schedule; then one run for EVERY fault-eligible network op index x every documented fault kind of that "
         "op (connect/start_tls: ConnectError, ConnectTimeout; read: ReadError, ReadTimeout, EOF, garbage (malformed peer bytes -> protocol error); write: WriteError, WriteTimeout) and one run "
         "for EVERY suspension point of the victim x {asyncio task.cancel(), anyio CancelScope.cancel()}; layer 'trio' repeats both halves on the trio runtime (trio.CancelScope.cancel()). thorough: all 13 kinds x 3 x 3; quick: "
         "8 kinds, a fixed third of the context/shape grid. random layer: drawn kind/context/shape, max_connections 1-3, 1-2 faults / a "
         "cancellation at drawn positions, drawn schedule and read segmentation. Non-trivial: the fault or cancellation actually fired; "
         "distinct by (kind, context, shape, trigger position, schedule).")

ASSUME = ["cancellation layers run on asyncio + anyio (task.cancel, anyio scope) and, in layer 'trio' and a quarter of the random layer, on a harness-scheduled trio run (trio.CancelScope); the sync pool gets the fault half in layer 'sync-faults' (every fault position x kind of "
          "every connection kind x shape, single caller, followed by two sequential probes and pool.close())",
          "faults are the documented failure kinds of each backend operation; an error fault breaks the simulated pipe like a reset",
          "state is judged only after every caller has returned and the event loop is quiescent",
          "ownership of a stream = reachable through httpcore objects from pool.connections (attribute graph walk)"]

PROP = Prop(
    "C05", level="fault_enumeration", rule=RULE5,
    layers=[
        Layer("enumerated", cases=enum_cases, execute=make_execute("C05")),
        Layer("random", strategy=random_cases, execute=make_execute("C05"), budget={"quick": 1200, "thorough": 60000}),
        Layer("sync-faults", stall_is_violation=True, cases=sync_cases, execute=make_sync_execute("C05")),
        Layer("trio", cases=trio_cases, execute=make_execute("C05")),
    ],
    assumptions=ASSUME,
    explanation="The enumerated layer is exhaustive over fault positions x kinds and cancellation points x styles for the listed base scenarios.",
)
