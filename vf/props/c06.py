"""C06 - every network stream that is opened is eventually closed (fault enumeration).

Shares its executions with C05 (vf/props/c05.py): every fault position x documented fault kind and every cancellation
point x style over the base scenarios, each followed by a capacity probe and pool.aclose(). Ledger oracle: (1) at the final
quiescence every open stream is reachable from pool.connections (owned); (2) after the pool has been closed no stream the
pool opened is open; a stream whose establishment failed or was cancelled part-way is covered by (1).
"""
from __future__ import annotations

from ..prop import Layer, Prop
from .c05 import ASSUME, RULE5, enum_cases, make_execute, make_sync_execute, random_cases, sync_cases, trio_cases

PROP = Prop(
    "C06", level="fault_enumeration",
    rule=RULE5 + " (C06: identical runs; non-trivial additionally requires that at least one stream had been opened.)",
    layers=[
        Layer("enumerated", cases=enum_cases, execute=make_execute("C06")),
        Layer("random", strategy=random_cases, execute=make_execute("C06"), budget={"quick": 1200, "thorough": 60000}),
        Layer("sync-faults", cases=sync_cases, execute=make_sync_execute("C06")),
        Layer("trio", cases=trio_cases, execute=make_execute("C06")),
        __import__("vf.props.real", fromlist=["layer_for"]).layer_for("C06", {"quick": 500, "thorough": 16000}),
    ],
    assumptions=ASSUME + ["'open' always means the simulated pipe (closing any TLS layer closes the pipe, as closing an SSL stream closes the socket)"],
    explanation="The enumerated layer is exhaustive over fault positions x kinds and cancellation points x styles for the listed base scenarios.",
)
