"""C07 - waiting requests make progress whenever capacity exists. Engine: vf/props/conc.py."""
from __future__ import annotations

from ..prop import Layer, Prop
from .conc import KIND_LIST, make_execute, scenarios

RULE = ("Same generated concurrent histories as C01 with small limits (max_connections 1-2, 2-5 callers, 1-3 origins), including callers with "
        "pool timeouts on the virtual clock, a cancelled caller, faults, and h2-capable pools whose connection turns out to be HTTP/1.1 "
        "(re-queue path); the server answers every request. Oracle at EVERY quiescence of the event loop: no queued request is serviceable "
        "(no pooled live connection can take it, the pool is at its limit and no idle connection can be evicted); no deadlock (unfinished "
        "callers with no enabled action); every caller terminates. Non-trivial: some request actually waited in the queue; distinct = "
        "distinct scenario.")

PROP = Prop(
    "C07", level="exploration", rule=RULE,
    layers=[Layer("histories", stall_is_violation=True, strategy=lambda: scenarios(max_callers=5, limits=(1, 1, 1, 2)), execute=make_execute("C07"),
                  budget={"quick": 3000, "thorough": 60000})],
    assumptions=["liveness is decided as deadlock-freedom plus the quiescence invariant in a closed simulated world with a fair fallback scheduler",
                 "queued requests are read from the pool's request list (pool._requests / is_queued()); the deadlock oracle does not need it",
                 "a caller that waits for network data nobody will send (e.g. after a sibling's cancelled HTTP/2 write) counts as blocked for ever"],
    explanation="Schedule space sampled, not exhausted.",
)
