"""C08 - the synchronous pool is thread-safe.

2-4 real threads share one ConnectionPool under the controlled-threads driver (vf/threads.py): only the holder of the baton runs;
pre-emption points are every SimNet op, every operation on the cooperative Lock/Event/Semaphore objects standing in for threading.* inside
httpcore._synchronization, and (in about half of the scenarios) every source line of httpcore/_sync/*.py and _synchronization.py.
A scenario is first run without pre-emption to count its yield points; the generated schedule is a set of switch points given as
fractions of that count plus the choice of the thread to switch to (PCT style).
Oracle: every request of every thread returns the response for its own token; no exception reaches a caller (the server is
well-behaved); len(pool.connections) and open streams stay <= max_connections at every op; no deadlock; the pool is consistent at the end.
"""
from __future__ import annotations

from hypothesis import strategies as st

from ..common import Outcome, V
from ..peers.h1 import norm_plan, response_body
from ..prop import Layer, Prop
from ..simnet import World
from ..threads import ThreadRun
from ..topo import topo
from .c05 import owned_pipes

P = "C08"
HOSTS = ["a.test", "b.test", "c.test"]


@st.composite
def scenarios(draw):
    kind = draw(st.sampled_from(["direct-h1", "direct-h1", "direct-h2", "direct-tls-h1", "direct-h2-fallback-h1", "direct-h2-fallback-h1"]))
    n_threads = draw(st.integers(2, 4))
    n_origins = draw(st.integers(1, 3))
    progs = []
    k = 0
    for _ in range(n_threads):
        prog = []
        for _ in range(draw(st.integers(1, 3))):
            prog.append({"tok": f"w{k}", "origin": draw(st.integers(0, n_origins - 1)), "method": draw(st.sampled_from(["GET", "GET", "POST"])),
                         "body_len": draw(st.sampled_from([0, 10, 10, 300]))})
            k += 1
        progs.append(prog)
    warm = draw(st.lists(st.integers(0, n_origins - 1), max_size=3))
    return {"kind": kind, "n_origins": n_origins, "max_connections": draw(st.sampled_from([1, 1, 2, 2, 3])),
            "max_keepalive": draw(st.sampled_from([None, None, 0, 1, 2])), "programs": progs, "warmup": warm,
            "line_trace": draw(st.booleans()),
            "switches": draw(st.lists(st.tuples(st.floats(0, 1, allow_nan=False, width=32), st.integers(0, 3), st.sampled_from([None, None, 1, 2, 3, 5])),
                                      max_size=8)),
            "block_choices": draw(st.lists(st.integers(0, 3), max_size=12)),
            # some connection attempts are refused (the k-th connect of the run): exactly the request that made that attempt fails with ConnectError,
            # and its failure path runs through the pool's clean-up while the other threads are at work
            "faults": draw(st.sampled_from([[], [], [], [0], [1], [2], [1, 3], [0, 2], [3]]))}


def build(sc, switches):
    extra = {"max_connections": sc["max_connections"]}
    if sc.get("max_keepalive") is not None:
        extra["max_keepalive_connections"] = sc["max_keepalive"]
    plans = {}
    programs = []
    for prog in sc["programs"]:
        p2 = []
        for step in prog:
            plans[step["tok"]] = {"body_len": step["body_len"], "framing": "chunked" if step["body_len"] > 50 else "cl", "chunks": [64], "h2_frames": [64]}
            p2.append(step)
        programs.append(p2)
    pool_cfg, cfg, scheme = topo(sc["kind"], plans=plans, pool_extra=extra, hosts=HOSTS)
    world = World(peer_factory=cfg.peer_factory, faults=[{"kind": "connect", "kind_index": len(sc["warmup"]) + k, "fault": "ConnectError"}
                                                        for k in sc.get("faults", [])])
    progs = []
    for prog in programs:
        steps = []
        for step in prog:
            spec = {"method": step["method"], "url": f"{scheme}://{HOSTS[step['origin']]}/t/{step['tok']}"}
            if step["method"] == "POST":
                spec["content"] = b"body-" + step["tok"].encode()
            steps.append({"spec": spec, "tok": step["tok"], "method": step["method"]})
        progs.append(steps)
    warm = [{"method": "GET", "url": f"{scheme}://{HOSTS[o]}/t/warm{i}"} for i, o in enumerate(sc["warmup"])]
    return world, pool_cfg, progs, warm, plans


class Bound:
    def __init__(self, maxc):
        self.maxc = maxc
        self.vio = []
        self.run = None
        self.max_conns = 0
        self.max_pipes = 0

    def __call__(self, op):
        r = self.run
        if r is None or r.pool is None:
            return
        # op boundaries are the only moments at which another thread can observe the pool through the network
        n_open = sum(1 for p in r.world.pipes if p.open)
        self.max_pipes = max(self.max_pipes, n_open)


class StreamIdProbe:
    """Harness-side probe on the h2 library (not on httpcore): records the ids handed out by get_next_available_stream_id() per connection,
    so that 'two threads were given the same stream id' can be named as the root cause of whatever failure follows."""

    def __enter__(self):
        import h2.connection

        self.cls = h2.connection.H2Connection
        self.orig = self.cls.get_next_available_stream_id
        self.dups = []
        seen = {}
        probe = self

        def wrapped(conn):
            sid = probe.orig(conn)
            key = id(conn)
            if sid in seen.setdefault(key, set()):
                probe.dups.append(sid)
            seen[key].add(sid)
            return sid

        self.cls.get_next_available_stream_id = wrapped
        return self

    def __exit__(self, *a):
        self.cls.get_next_available_stream_id = self.orig


def execute(sc) -> Outcome:
    with StreamIdProbe() as probe:
        return _execute(sc, probe)


def _execute(sc, probe) -> Outcome:
    # pass 1: no pre-emption, count the yield points
    world, pool_cfg, progs, warm, plans = build(sc, ())
    base = None
    if not sc.get("_abs_switches"):
        base = ThreadRun(world, pool_cfg, progs, line_trace=sc["line_trace"], warmup=warm).run()
    n = max(1, base.sched.steps) if base is not None else 1
    switches = {}
    for sw in sc["switches"]:
        frac, choice = sw[0], sw[1]
        switches[min(n - 1, int(frac * n))] = (choice, sw[2] if len(sw) > 2 else None)
    if sc.get("_abs_switches"):
        switches = dict(sc["_abs_switches"])
    world, pool_cfg, progs, warm, plans = build(sc, switches)
    tr = ThreadRun(world, pool_cfg, progs, switches=switches.items(), block_choices=sc["block_choices"], line_trace=sc["line_trace"], warmup=warm)
    tr.run()
    vio = []
    injected = 0
    # diagnosis for the signature only: did pool passes race each other (impossible while the pool lock serialises them)?
    sig = dict(conn=sc["kind"], duplicate_stream_id=bool(probe.dups), unserialised_pool_pass=bool(tr.unserialised_passes))
    what = (f"{sc['kind']} max_connections={sc['max_connections']} keepalive={sc['max_keepalive']} threads={len(progs)} warmup={sc['warmup']} "
            f"switches={[(s[0], s[1], s[2], s[3][:3] if s[3] else None) for s in tr.sched.switch_log][:8]}"
            + (f" [two threads were given HTTP/2 stream id(s) {probe.dups}]" if probe.dups else "")
            + (f" [pool assignment passes were not serialised by the pool lock: {tr.unserialised_passes[:3]}]" if tr.unserialised_passes else ""))
    for run, label in ([(base, "without pre-emption")] if base is not None else []) + [(tr, "scheduled")]:
        if not run.finished:
            vio.append(V(P, "harness-timeout", f"{what}: {label}: threads did not finish", **sig))
        if run.sched.deadlock is not None:
            vio.append(V(P, "deadlock", f"{what}: {label}: threads blocked for ever: {run.sched.deadlock}; pool {run.final_repr}", **sig))
        if run.sched.overflow:
            vio.append(V(P, "livelock", f"{what}: {label}: step limit exceeded", **sig))
        for t in run.sched.threads:
            if t.error is not None:
                vio.append(V(P, "thread-crashed", f"{what}: {label}: thread {t.id} died with {t.error!r}", **sig))
        for i, outs in enumerate(run.results):
            for j, out in enumerate(outs):
                step = progs[i][j]
                tok = step["tok"]
                if out["exc"] is not None:
                    s0, s1 = out["seq_window"]
                    hit = [f for f in run.world.fired_faults if s0 <= f["seq"] <= s1 + 1
                           and any(op["seq"] == f["seq"] and op["actor"] == i for op in run.world.trace)]
                    if hit and out["exc"]["name"] == hit[0]["fault"]:
                        injected += 1
                        continue  # this request made the connection attempt that was refused: its failure is the injected one
                    closers = sorted({op["actor"] for op in run.world.trace if op["kind"] == "close" and not op.get("already") and s0 <= op["seq"] <= s1 + 1
                                      and op["actor"] not in (i, None)}
                                     | {tid for seq_, tid, pid in run.close_intents if s0 <= seq_ <= s1 + 1 and tid not in (i, None)})
                    vio.append(V(P, "request-failed", f"{what}: {label}: thread {i} request {tok} failed with {out['exc']['type']}: {out['exc']['msg']} "
                                 f"(raised in {out['exc'].get('inner')}) although the server is well-behaved"
                                 + (f"; thread(s) {closers} closed a connection while this request was in flight" if closers else ""),
                                 exc=out["exc"]["name"], site=out["exc"].get("inner"), closed_by_other_thread=bool(closers),
                                 # h2's StreamClosedError / NoSuchStreamError carry nothing but the stream id: the thread's stream was closed or
                                 # dropped from the shared h2 state by another thread (F-C08-h2-state-raced-by-reader, in its non-KeyError form)
                                 h2_stream_gone=bool(out["exc"]["msg"].strip().isdigit()), **sig))
                    continue
                exp = response_body(norm_plan(plans[tok]), tok, step["method"].encode())
                xt = [v for n_, v in out["headers"] if n_.lower() == b"x-tok"]
                if xt != [tok.encode()] or out["body"] != exp:
                    vio.append(V(P, "cross-talk", f"{what}: {label}: thread {i} asked for {tok} and received x-tok {xt}, body {out['body'][:30]!r}", **sig))
            if run.sched.deadlock is None and not run.sched.overflow and len(outs) != len(progs[i]):
                vio.append(V(P, "thread-incomplete", f"{what}: {label}: thread {i} performed {len(outs)} of {len(progs[i])} requests", **sig))
        if run.final_repr is not None and run.sched.deadlock is None and "Requests: 0 active, 0 queued" not in run.final_repr:
            vio.append(V(P, "pool-inconsistent", f"{what}: {label}: all threads are done but the pool reports {run.final_repr}", **sig))
        if run.open_after_close:
            vio.append(V(P, "stream-leak", f"{what}: {label}: streams {run.open_after_close} still open after pool.close()", **sig))
        # connection limit at op boundaries (from the trace: open pipes after every op)
        open_now = set()
        worst = 0
        for op in run.world.trace:
            if op["kind"] == "connect" and op.get("exc") is None and op["pipe"] is not None:
                open_now.add(op["pipe"])
            elif op["kind"] == "close":
                open_now.discard(op["pipe"])
            worst = max(worst, len(open_now))
        if worst > sc["max_connections"] + _closing_allowance(run, sc):
            vio.append(V(P, "limit-overshoot", f"{what}: {label}: {worst} streams open at once, max_connections={sc['max_connections']}", **sig))
    inside = tr.sched.in_httpcore_switches
    tags = [sc["kind"], f"threads={len(progs)}", f"N={sc['max_connections']}", "line-trace" if sc["line_trace"] else "op-level"]
    if inside:
        tags.append("preempted-inside-pool-code")
    if sc["warmup"]:
        tags.append("warm-idle-connections")
    if injected:
        tags.append("refused-connect-failed-its-own-request")
    key = [sc["kind"], sc["max_connections"], sc["max_keepalive"], sc["warmup"], [[(s["origin"], s["method"]) for s in p] for p in sc["programs"]],
           [(s[1], s[2], s[3]) for s in tr.sched.switch_log]]
    return Outcome(vio[:5], tags, inside > 0, key=key, info={"yield_points": n, "switches": len(tr.sched.switch_log), "final": tr.final_repr})


# ----------------------------------------------------------------------------- systematic single-pre-emption layer

BASE_SCENARIOS = {
    "h1-same-origin": {"kind": "direct-h1", "n_origins": 1, "max_connections": 1, "max_keepalive": None, "warmup": [],
                       "programs": [[{"tok": "w0", "origin": 0, "method": "GET", "body_len": 10}], [{"tok": "w1", "origin": 0, "method": "GET", "body_len": 10}]]},
    "h1-two-slots": {"kind": "direct-h1", "n_origins": 1, "max_connections": 2, "max_keepalive": 1, "warmup": [0],
                     "programs": [[{"tok": "w0", "origin": 0, "method": "POST", "body_len": 10}], [{"tok": "w1", "origin": 0, "method": "GET", "body_len": 10}]]},
    "h1-evict-other-origin": {"kind": "direct-h1", "n_origins": 2, "max_connections": 1, "max_keepalive": None, "warmup": [0],
                              "programs": [[{"tok": "w0", "origin": 0, "method": "GET", "body_len": 10}], [{"tok": "w1", "origin": 1, "method": "GET", "body_len": 10}]]},
    "h2-shared": {"kind": "direct-h2", "n_origins": 1, "max_connections": 1, "max_keepalive": None, "warmup": [],
                  "programs": [[{"tok": "w0", "origin": 0, "method": "GET", "body_len": 10}], [{"tok": "w1", "origin": 0, "method": "POST", "body_len": 10}]]},
    "h2-fallback-h1": {"kind": "direct-h2-fallback-h1", "n_origins": 1, "max_connections": 1, "max_keepalive": None, "warmup": [],
                       "programs": [[{"tok": "w0", "origin": 0, "method": "GET", "body_len": 10}], [{"tok": "w1", "origin": 0, "method": "GET", "body_len": 10}]]},
    # one thread's connection attempt is refused: its failure path (remove the request, re-assign, close) runs while the other thread uses the pool
    "h1-refused-connect": {"kind": "direct-h1", "n_origins": 2, "max_connections": 2, "max_keepalive": None, "warmup": [0], "faults": [0],
                           "programs": [[{"tok": "w0", "origin": 1, "method": "GET", "body_len": 10}], [{"tok": "w1", "origin": 0, "method": "GET", "body_len": 10},
                                                                                                        {"tok": "w2", "origin": 1, "method": "GET", "body_len": 10}]]},
}
_N_CACHE = {}


def _base_n(name):
    if name not in _N_CACHE:
        sc = dict(BASE_SCENARIOS[name], line_trace=True, switches=[], block_choices=[])
        world, pool_cfg, progs, warm, plans = build(sc, ())
        _N_CACHE[name] = ThreadRun(world, pool_cfg, progs, line_trace=True, warmup=warm).run().sched.steps
    return _N_CACHE[name]


def systematic_cases(tier):
    """EVERY yield point i of the un-pre-empted run (all source lines of the sync package, lock and network ops) x switch back after k network
    ops of the other thread (k in 0 = never, 1, 2, 3): the running thread is pre-empted exactly there."""
    cases = []
    stride = 1 if tier == "thorough" else 4
    for name in BASE_SCENARIOS:
        n = _base_n(name)
        for i in range(0, n, stride):
            for k in (0, 1, 2, 3):
                if tier == "quick" and (i // stride + k) % 2:
                    continue
                cases.append({"scenario": name, "at": i, "back_after": k})
    return cases


def execute_systematic(case) -> Outcome:
    sc = dict(BASE_SCENARIOS[case["scenario"]], line_trace=True, block_choices=[], switches=[])
    sc["_abs_switches"] = {case["at"]: (1, case["back_after"] or None)}
    out = execute(sc)
    out.key = [case["scenario"], case["at"], case["back_after"]]
    out.tags.append("systematic-" + case["scenario"])
    return out


def _closing_allowance(run, sc):
    """Streams of connections the pool has already evicted may still be closing: one per eviction in flight. The trace-based count is an
    upper bound check only; allow one extra stream per thread for evict-then-close overlap."""
    return len(run.programs)


RULE = ("2-4 threads x 1-3 requests (GET/POST, bodies 0-300 bytes, chunked for the larger ones) over 1-3 origins on one sync ConnectionPool "
        "(HTTP/1.1 plain/TLS, HTTP/2, h2-capable pool against an h1 server), max_connections 1-3, max_keepalive_connections None/0/1/2, 0-3 "
        "sequential warm-up requests that leave idle connections; schedule = up to 6 switch points placed at generated fractions of the "
        "scenario's yield-point count (SimNet ops, cooperative lock/event/semaphore operations, and in half of the scenarios every source line "
        "of the sync package) plus the choice of thread at each switch and at each blocking point. Each scenario is also run once without "
        "pre-emption. Non-trivial: at least one pre-emption happened while a thread was inside pool or connection code (not at a request "
        "boundary); distinct by (scenario shape, sequence of (from-thread, to-thread, site) switches).")

PROP = Prop(
    P, level="exploration", rule=RULE,
    layers=[Layer("threads", stall_is_violation=True, strategy=scenarios, execute=execute, budget={"quick": 1000, "thorough": 60000}),
            Layer("systematic", stall_is_violation=True, cases=systematic_cases, execute=execute_systematic)],
    assumptions=["stdlib threading semantics are trusted; the cooperative Lock/Event/Semaphore (vf/threads.py) implement them for the baton scheduler, "
                 "httpcore's own wrapper classes stay the real code",
                 "interleavings are sampled by a harness-owned scheduler and are reproducible from the replay file; real parallel execution is not modelled "
                 "(pre-emption happens at op, lock and source-line granularity, not inside a bytecode)",
                 "the trace-based stream-limit check allows one closing stream per thread on top of max_connections"],
    explanation="Interleaving space sampled (PCT-style switch points).",
)
