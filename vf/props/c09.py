"""C09 - keep-alive reuse, limits and expiry (model-based, stateful).

A generated sequence of operations (request / open a streaming response / close an open response after reading all or part /
advance the clock / server closes an idle connection / close the pool) over several origins is applied in lock-step to a live
sync pool and a live asyncio pool, for a drawn configuration (max_connections, max_keepalive_connections incl. 0 and None,
keepalive_expiry incl. 0 and None, HTTP/1.1 or HTTP/2). A reference model is kept by the harness from its *own observations* on
the simulated wire (which pipe carried which request, when each response was closed, which pipes the server closed) - not from
the connections' state flags - and compared after every operation.
"""
from __future__ import annotations

from hypothesis import strategies as st

from ..common import Outcome, V
from ..drivers import build_pool, exc_info, run_async
from ..peers.endpoints import NetConfig
from ..prop import Layer, Prop
from ..simnet import HarnessHang, World, patched_time

P = "C09"
HOSTS = ["a.test", "b.test", "c.test"]
DTS = [0.013, 0.31, 0.73, 1.13, 3.07, 11.0]


@st.composite
def cases(draw):
    h2 = draw(st.booleans())
    cfg = {"max_connections": draw(st.sampled_from([1, 2, 3, 4, None])),
           "max_keepalive": draw(st.sampled_from([None, None, 0, 1, 2, 3])),
           "expiry": draw(st.sampled_from([None, None, 0, 0.5, 2.0])), "h2": h2, "n_origins": draw(st.integers(1, 3))}
    steps = []
    for _ in range(draw(st.integers(2, 30))):
        k = draw(st.sampled_from(["request", "request", "request", "open", "open", "close", "close", "advance", "server_close", "server_ping"]))
        if k in ("request", "open"):
            steps.append([k, draw(st.integers(0, cfg["n_origins"] - 1))])
        elif k == "close":
            steps.append([k, draw(st.integers(0, 7)), draw(st.sampled_from(["all", "all", "part", "none"]))])
        elif k == "advance":
            steps.append([k, draw(st.sampled_from(DTS))])
        else:
            steps.append([k, draw(st.integers(0, 7))])
    return {"cfg": cfg, "steps": steps}


class Model:
    """What the harness itself has seen on the wire."""

    def __init__(self, cfg):
        self.cfg = cfg
        self.pipes = {}  # pipe id -> {"origin", "state": busy|idle|closed, "idle_since", "server_closed", "streams": n}
        self.maxc = cfg["max_connections"] if cfg["max_connections"] is not None else 10 ** 9
        mk = cfg["max_keepalive"] if cfg["max_keepalive"] is not None else 10 ** 9
        self.keep = min(self.maxc, mk)

    def idle(self):
        return [pid for pid, p in self.pipes.items() if p["state"] == "idle"]

    def live(self):
        return [pid for pid, p in self.pipes.items() if p["state"] != "closed"]

    def expired(self, pid, now):
        p = self.pipes[pid]
        e = self.cfg["expiry"]
        if e is None:
            return False
        if e == 0:
            return True
        return now - p["idle_since"] > e

    def near_deadline(self, pid, now):
        e = self.cfg["expiry"]
        return e not in (None, 0) and abs((now - self.pipes[pid]["idle_since"]) - e) < 1e-3

    def reusable(self, origin, now):
        out = []
        for pid, p in self.pipes.items():
            if p["origin"] != origin or p["state"] == "closed":
                continue
            if self.cfg["h2"]:
                if p["state"] == "idle" and (self.expired(pid, now) or p["server_closed"]):
                    continue
                out.append(pid)  # a busy HTTP/2 connection can take more streams
            elif p["state"] == "idle" and not self.expired(pid, now) and not p["server_closed"]:
                out.append(pid)
        return out


class Runner:
    """Applies steps to one live pool (sync or async) and checks it against the model after every step."""

    def __init__(self, case, sync):
        self.case = case
        self.sync = sync
        cfg = case["cfg"]
        alpn = "h2" if cfg["h2"] else "http/1.1"
        self.net = NetConfig(default_endpoint={"role": "origin", "alpn": alpn}, default_plan={"body_len": 40, "framing": "chunked", "chunks": [10],
                                                                                             "h2_frames": [10]})
        self.world = World(peer_factory=self.net.peer_factory)
        pc = {"max_connections": cfg["max_connections"], "max_keepalive_connections": cfg["max_keepalive"], "keepalive_expiry": cfg["expiry"],
              "http2": cfg["h2"]}
        self.pool = build_pool(self.world, pc, sync=sync)
        self.scheme = "https" if cfg["h2"] else "http"
        self.model = Model(cfg)
        self.open = []  # open streaming responses: {"cm", "resp", "pipe", "tok", "iter"}
        self.vio = []
        self.tok = 0
        self.tags = set()
        self.variant = "sync" if sync else "async"
        self.trace_pos = 0
        self.closed_pool = False

    def call(self, coro_or_fn):
        if self.sync:
            return coro_or_fn()
        return run_async(coro_or_fn())

    def bad(self, kind, msg, **sig):
        if len(self.vio) < 4:
            self.vio.append(V(P, kind, f"[{self.variant}] step {self.step_i} {self.step}: {msg}", proto="h2" if self.case["cfg"]["h2"] else "h1", **sig))

    # ---- observation of what happened on the wire during one step
    def new_ops(self):
        ops = self.world.trace[self.trace_pos:]
        self.trace_pos = len(self.world.trace)
        return ops

    def pipe_of(self, tok):
        for p in self.world.pipes:
            for ex in p.peer.leaf().all_exchanges():
                if ex["token"] == tok:
                    return p.id
        return None

    def digest(self, ops, *, request_origin=None, carried=None, needed_new=False, pool_close=False):
        """Update the model with the ops of this step; judge every client-side close of an idle pipe."""
        m = self.model
        now = self.world.clock.now
        for op in ops:
            if op["kind"] == "connect" and op.get("exc") is None and op["pipe"] is not None:
                pipe = self.world.pipes[op["pipe"]]
                m.pipes[op["pipe"]] = {"origin": pipe.target, "state": "busy", "idle_since": None, "server_closed": False, "streams": 0}
            elif op["kind"] == "close" and not op.get("already"):
                pid = op["pipe"]
                p = m.pipes.get(pid)
                if p is None or p["state"] == "closed":
                    continue
                if p["state"] == "idle":
                    reasons = []
                    if m.expired(pid, now) or m.near_deadline(pid, now):
                        reasons.append("expired")
                    if p["server_closed"]:
                        reasons.append("server-closed")
                    if len(m.idle()) > m.keep:
                        reasons.append("idle-surplus")
                    if request_origin is not None and needed_new and len(m.live()) >= m.maxc:
                        reasons.append("evicted-for-request")
                    if pool_close:
                        reasons.append("pool-close")
                    if not reasons:
                        self.bad("unjustified-close", f"idle connection (pipe {pid} to {p['origin']}) was closed although it had not expired, the server "
                                 f"had not closed it, idle connections ({len(m.idle())}) did not outnumber the keep-alive limit ({m.keep}), no request "
                                 f"needed its slot and the pool was not being closed (live {len(m.live())}, max_connections {m.maxc})")
                    else:
                        self.tags.add("close-" + reasons[0])
                p["state"] = "closed"

    # ---- steps
    def do_request(self, oi, hold):
        m = self.model
        now = self.world.clock.now
        host = HOSTS[oi]
        origin = (host, 443 if self.case["cfg"]["h2"] else 80)
        tok = f"k{self.tok}"
        self.tok += 1
        reusable = m.reusable(origin, now)
        near = any(m.near_deadline(pid, now) for pid, p in m.pipes.items() if p["state"] == "idle")
        busy = [pid for pid, p in m.pipes.items() if p["state"] == "busy"]
        idle = m.idle()
        capacity = bool(reusable) or len(m.live()) < m.maxc or bool(idle)
        url = f"{self.scheme}://{host}/t/{tok}"
        res = {}
        if self.sync:
            try:
                cm = self.pool.stream("GET", url, extensions={"timeout": {"pool": 0}})
                resp = cm.__enter__()
                res = {"cm": cm, "resp": resp}
            except HarnessHang as exc:
                res = {"exc": {"name": "HANG", "type": "HANG", "msg": str(exc)}}
            except BaseException as exc:
                res = {"exc": exc_info(exc)}
        else:
            async def go():
                try:
                    cm = self.pool.stream("GET", url, extensions={"timeout": {"pool": 0}})
                    resp = await cm.__aenter__()
                    return {"cm": cm, "resp": resp}
                except HarnessHang as exc:
                    return {"exc": {"name": "HANG", "type": "HANG", "msg": str(exc)}}
                except BaseException as exc:
                    return {"exc": exc_info(exc)}

            res = run_async(go())
        ops = self.new_ops()
        carried = self.pipe_of(tok)
        connects = [o for o in ops if o["kind"] == "connect"]
        if "exc" in res:
            self.digest(ops, request_origin=origin, carried=None, needed_new=not reusable)
            if res["exc"]["name"] == "PoolTimeout":
                if capacity and not near:
                    self.bad("no-capacity-claimed", f"PoolTimeout although the model sees capacity (reusable {reusable}, live {len(m.live())}/{m.maxc}, idle {idle})")
                self.tags.add("pool-full")
            else:
                self.bad("request-failed", f"request to {origin} raised {res['exc']['type']}: {res['exc']['msg']}", exc=res["exc"]["name"])
            return
        if not capacity:
            self.bad("limit-ignored", f"request served although the model sees no capacity (live {len(m.live())}, max_connections {m.maxc})")
        # (1) reuse law and (3) never hand out an expired / server-closed connection
        if reusable and not near:
            self.tags.add("reuse-opportunity")
            if carried not in reusable or connects:
                self.bad("not-reused", f"request to {origin} went to pipe {carried} ({len(connects)} new connect(s)) although idle, unexpired, open "
                         f"connection(s) {reusable} to that origin existed")
        elif carried in m.pipes and m.pipes[carried]["state"] != "closed" and not near:
            p = m.pipes[carried]
            why = "its keep-alive expiry had elapsed" if (p["state"] == "idle" and m.expired(carried, now)) else (
                "the server had already closed it" if p["server_closed"] else None)
            if why and not (self.case["cfg"]["h2"] and p["server_closed"] and not m.expired(carried, now)):
                self.bad("stale-connection-used", f"request to {origin} was written to pipe {carried} although {why}")
        self.digest(ops, request_origin=origin, carried=carried, needed_new=not reusable)
        if carried is not None and carried in m.pipes:
            m.pipes[carried]["state"] = "busy"
            m.pipes[carried]["streams"] += 1
        res.update(tok=tok, pipe=carried, read=0)
        if hold:
            self.open.append(res)
        else:
            self.finish(res, "all")

    def finish(self, r, how):
        m = self.model
        if self.sync:
            try:
                if how == "all":
                    for _ in r["resp"].iter_stream():
                        pass
                elif how == "part":
                    it = r["resp"].iter_stream()
                    next(it, None)
                r["cm"].__exit__(None, None, None)
            except BaseException as exc:
                self.bad("close-failed", f"closing response {r['tok']} raised {exc_info(exc)['type']}")
        else:
            async def go():
                try:
                    if how == "all":
                        async for _ in r["resp"].aiter_stream():
                            pass
                    elif how == "part":
                        it = r["resp"].aiter_stream().__aiter__()
                        try:
                            await it.__anext__()
                        except StopAsyncIteration:
                            pass
                    await r["cm"].__aexit__(None, None, None)
                except BaseException as exc:
                    return exc
                return None

            exc = run_async(go())
            if exc is not None:
                self.bad("close-failed", f"closing response {r['tok']} raised {exc_info(exc)['type']}")
        ops = self.new_ops()
        pid = r["pipe"]
        now = self.world.clock.now
        if pid in m.pipes and m.pipes[pid]["state"] != "closed":
            p = m.pipes[pid]
            p["streams"] -= 1
            closed_now = any(o["kind"] == "close" and o["pipe"] == pid and not o.get("already") for o in ops)
            if p["streams"] <= 0 and not closed_now:
                p["state"] = "idle"
                p["idle_since"] = now
            if closed_now and (self.case["cfg"]["h2"] or how == "all") and p["streams"] <= 0:
                # the connection of a completely finished exchange was closed at once: only legitimate as idle surplus
                p["state"] = "idle"
                p["idle_since"] = now
        self.digest(ops)
        if how != "all":
            self.tags.add("early-close")

    def step_apply(self, i, step):
        self.step_i, self.step = i, step
        m = self.model
        kind = step[0]
        if kind == "request":
            self.do_request(step[1], hold=False)
        elif kind == "open":
            self.do_request(step[1], hold=True)
        elif kind == "close":
            if not self.open:
                return
            r = self.open.pop(step[1] % len(self.open))
            self.finish(r, step[2])
        elif kind == "advance":
            self.world.clock.advance(step[1])
            if m.idle():
                self.tags.add("advance-with-idle")
            return
        elif kind == "server_ping":
            # HTTP/2: the server says something on the idle connection that does not end it (a PING): unread bytes are pending on the socket, the
            # connection is as reusable as before
            idle = [pid for pid in m.idle() if self.world.pipes[pid].open and not m.pipes[pid]["server_closed"]]
            if not idle or not self.case["cfg"]["h2"]:
                return
            pid = idle[step[1] % len(idle)]
            h2 = getattr(self.world.pipes[pid].peer.leaf(), "h2", None)
            if h2 is None:
                return
            h2._action({"ping": True})
            h2.pump()
            self.tags.add("server-ping-on-idle")
            return
        elif kind == "server_close":
            idle = m.idle()
            if not idle or self.case["cfg"]["h2"]:
                return
            pid = idle[step[1] % len(idle)]
            self.world.pipes[pid].server_close()
            m.pipes[pid]["server_closed"] = True
            self.tags.add("server-closed-idle")
            return
        # (2) after an operation completes idle connections never outnumber the keep-alive limit
        now = self.world.clock.now
        idle_open = [pid for pid in m.idle() if self.world.pipes[pid].open]
        if len(idle_open) > m.keep:
            self.bad("keepalive-limit-exceeded", f"{len(idle_open)} idle connections are open (pipes {idle_open}), keep-alive limit is {m.keep}")
        if m.idle() and any(p["state"] == "busy" for p in m.pipes.values()) and len(m.idle()) >= m.keep:
            self.tags.add("active+idle-at-limit")
        # model vs. wire: a pipe the model thinks is open must be open, and vice versa
        for pid, p in m.pipes.items():
            if (p["state"] != "closed") != self.world.pipes[pid].open:
                self.bad("model-desync", f"pipe {pid}: model says {p['state']}, simulated network says open={self.world.pipes[pid].open}")
                p["state"] = "closed" if not self.world.pipes[pid].open else p["state"]

    def finish_all(self):
        self.step_i, self.step = "end", ["close-pool"]
        for r in list(self.open):
            self.finish(r, "all")
        self.open = []
        if self.sync:
            self.pool.close()
        else:
            run_async(self.pool.aclose())
        ops = self.new_ops()
        self.digest(ops, pool_close=True)
        still = [p.id for p in self.world.pipes if p.open]
        if still:
            self.bad("open-after-pool-close", f"pipes {still} are still open after the pool was closed")


def execute(case) -> Outcome:
    vio = []
    tags = set()
    outcomes = {}
    for sync in (True, False):
        r = Runner(case, sync)
        with patched_time(r.world.clock):
            for i, step in enumerate(case["steps"]):
                r.step_apply(i, step)
                if r.vio:
                    break
            if not r.vio:
                r.finish_all()
        vio += r.vio
        tags |= r.tags
        outcomes[r.variant] = {"pipes": len(r.world.pipes), "ops": len(r.world.trace)}
    cfg = case["cfg"]
    tags.add("h2" if cfg["h2"] else "h1")
    tags.add(f"keep={cfg['max_keepalive']}")
    tags.add(f"expiry={cfg['expiry']}")
    if outcomes["sync"] != outcomes["async"] and not vio:
        vio.append(V(P, "sync-async-differ", f"sync and async pools behaved differently on the same sequence: {outcomes}"))
    nontrivial = ("reuse-opportunity" in tags and ("advance-with-idle" in tags or "server-closed-idle" in tags)) or "active+idle-at-limit" in tags
    return Outcome(vio[:5], sorted(tags), nontrivial, info=outcomes)


RULE = ("A case is a pool configuration (max_connections in {1,2,3,4,None}, max_keepalive_connections in {None,0,1,2,3}, keepalive_expiry in {None,0,0.5,2.0}, "
        "HTTP/1.1 or HTTP/2, 1-3 origins) and a sequence of 2-30 operations: complete request to origin i / open a streaming response to origin i / "
        "close open response j after reading all, part or nothing / advance the virtual clock by dt in {0.013, 0.31, 0.73, 1.13, 3.07, 11} / the "
        "server closes idle connection j (HTTP/1.1) / finally close the pool; applied in lock-step to a sync and an asyncio pool. Requests use "
        "pool timeout 0, so a full pool answers PoolTimeout instead of blocking. Non-trivial: the sequence contains a reuse opportunity after a "
        "clock advance or server close with idle connections, or a moment with active and idle connections at the keep-alive limit; distinct = "
        "distinct case.")

PROP = Prop(
    P, level="exploration", rule=RULE,
    layers=[Layer("sequences", strategy=cases, execute=execute, budget={"quick": 2500, "thorough": 80000}),
            __import__("vf.props.real", fromlist=["layer_for"]).layer_for("C09", {"quick": 400, "thorough": 12000})],
    assumptions=["layer real-backends: HTTP/1.1 over real sockets through httpcore's own backends (where 'the server has closed the idle connection' is seen "
                 "through the real socket-readability probe, also behind TLS and TLS-in-TLS): after a silent server-side close - the harness waits until "
                 "the FIN has been sent, so no timing is involved - the next request must not fail; without any close a sequential caller uses one "
                 "connection per host",
                 "the reference model is fed only by the harness's observations of the simulated wire (connect / close ops, which pipe carried a token)",
                 "instants closer than 1 ms to an expiry deadline are not judged (no exact ties)",
                 "server-side closes are generated for idle HTTP/1.1 connections only (the property speaks of HTTP/1.1)",
                 "generated op sequences are interpreted with modular indices (shrinkable list) instead of a RuleBasedStateMachine so that the "
                 "sequence itself is the replay file"],
    explanation="Model-based stateful exploration; sequences sampled.",
)
