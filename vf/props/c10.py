"""C10 - requests travel only on connections made for their origin; TLS per scheme.

Layer 'matrix' (exhaustive): scheme x port form x proxy mode x (http1, http2) x ALPN outcome x sni_hostname.
Layer 'histories': sequences of requests over sets of origins that differ in exactly one component.
Oracle (from the op trace and the peers' own parsers): the pipe that carried each request head (by token) was
established - directly, through CONNECT or through SOCKS - to exactly that request's host and port; it is
TLS-marked at that moment iff the scheme is https/wss; SNI, ALPN offer and spoken protocol are as configured.
"""
from __future__ import annotations

import itertools

from hypothesis import strategies as st

from ..common import Outcome, V
from ..drivers import async_request, build_pool, run_async, sync_request
from ..peers.endpoints import NetConfig
from ..prop import Layer, Prop
from ..simnet import World
from .c19 import ref_split

P = "C10"
DEFAULT_PORT = {"http": 80, "https": 443, "ws": 80, "wss": 443}
SECURE = ("https", "wss")
PROXIES = {"none": None, "http": "http://proxy.test:3128", "https": "https://proxy.test:3129",
           "socks5": "socks5://socks.test:1080", "socks5h": "socks5h://socks.test:1080"}
PROXY_ADDR = {"http": ("proxy.test", 3128), "https": ("proxy.test", 3129), "socks5": ("socks.test", 1080),
              "socks5h": ("socks.test", 1080)}


def url_of(o):
    s = f"{o['scheme']}://{o['host']}"
    if o["port"] is not None:
        s += f":{o['port']}"
    return s


def bare(host: str) -> str:
    """The host as the library holds it and hands it to the network: lower case, an IPv6 literal without its URL brackets."""
    h = host.lower()
    return h[1:-1] if h.startswith("[") and h.endswith("]") else h


def same_hostport(got: str, host: str, port: int) -> bool:
    """host:port of a CONNECT target / SOCKS command; an IPv6 literal may or may not be bracketed and may be spelled in another canonical form."""
    if got in (f"{host}:{port}", f"[{host}]:{port}"):
        return True
    if ":" in host:
        import ipaddress

        g_host, _, g_port = got.rpartition(":")
        try:
            return g_port == str(port) and ipaddress.ip_address(g_host.strip("[]")) == ipaddress.ip_address(host)
        except ValueError:
            return False
    return False


def eport(o):
    return o["port"] if o["port"] is not None else DEFAULT_PORT[o["scheme"]]


def run_history(case):
    """case: {"proxy", "http1", "http2", "alpn", "requests": [{"origin": {...}, "sni": str|None}], "sync"}"""
    eps = {"proxy.test:3128": {"role": "proxy"}, "proxy.test:3129": {"role": "proxy"}, "socks.test:1080": {"role": "socks"}}
    cfg = NetConfig(endpoints=eps, default_endpoint={"role": "origin", "alpn": case["alpn"]})
    world = World(peer_factory=cfg.peer_factory)
    pool_cfg = {"http1": case["http1"], "http2": case["http2"], "max_connections": case.get("max_connections", 10)}
    if PROXIES[case["proxy"]]:
        pool_cfg["proxy"] = {"url": PROXIES[case["proxy"]]}
    pool = build_pool(world, pool_cfg, sync=case["sync"])
    specs = []
    for i, r in enumerate(case["requests"]):
        spec = {"method": "GET", "url": url_of(r["origin"]) + f"/t/r{i}", "sni": r.get("sni"), "headers": [["x-tok", f"r{i}"]]}
        forward = case["proxy"] in ("http", "https") and r["origin"]["scheme"] == "http"
        if r.get("ext") and not forward:
            # the documented `target` extension replaces the request target only: the request still belongs to its URL's origin
            spec.update(method="OPTIONS", ext_target=b"*")
        specs.append(spec)
    outs = []
    if case["sync"]:
        for s in specs:
            outs.append(sync_request(pool, s))
        pool.close()
    else:
        async def go():
            for s in specs:
                outs.append(await async_request(pool, s))
            await pool.aclose()

        run_async(go())
    return world, outs


def judge(case, world, outs):
    vio = []
    proxy = case["proxy"]
    exchanges = [ex for p in world.pipes for ex in p.peer.all_exchanges()]
    for i, r in enumerate(case["requests"]):
        o = r["origin"]
        tok = f"r{i}"
        what = f"request {i} to {url_of(o)} (proxy={proxy}, http1={case['http1']}, http2={case['http2']}, alpn={case['alpn']}, sni={r.get('sni')})"
        sig = dict(proxy=proxy, scheme=o["scheme"])
        out = outs[i]
        if out["exc"] is not None:
            vio.append(V(P, "request-failed", f"{what}: {out['exc']['type']}: {out['exc']['msg']}", exc=out["exc"]["name"], **sig))
            continue
        exs = [e for e in exchanges if e["token"] == tok]
        if len(exs) != 1:
            vio.append(V(P, "transmissions", f"{what}: seen on the wire {len(exs)} times", **sig))
            continue
        ex = exs[0]
        pipe = world.pipes[ex["pipe"]]
        host, port = bare(o["host"]), eport(o)
        secure = o["scheme"] in SECURE
        # ---- establishment chain
        if proxy == "none":
            mode = "direct"
            if pipe.target != (host, port) or ex["via"] is not None or ex["proxy_hop"]:
                vio.append(V(P, "wrong-connection", f"{what}: written to a stream established to {pipe.target} via {ex['via']}", mode=mode, **sig))
        elif proxy in ("socks5", "socks5h"):
            mode = "socks"
            if pipe.target != PROXY_ADDR[proxy]:
                vio.append(V(P, "wrong-connection", f"{what}: written to a stream established to {pipe.target}, expected the SOCKS proxy", mode=mode, **sig))
            elif ex["via"] is None or ex["via"][0] != "socks" or not same_hostport(ex["via"][1], host, port):
                vio.append(V(P, "wrong-connection", f"{what}: SOCKS command named {ex['via']}, expected {host}:{port}", mode=mode, **sig))
        elif o["scheme"] == "http":
            mode = "forward"
            if pipe.target != PROXY_ADDR[proxy] or not ex["proxy_hop"]:
                vio.append(V(P, "wrong-connection", f"{what}: written to {pipe.target} (proxy_hop={ex['proxy_hop']}), expected the forwarding proxy", mode=mode, **sig))
            else:
                c = ref_split(ex["target"])
                tport = int(c["port"]) if c["port"] else DEFAULT_PORT.get((c["scheme"] or b"").decode(), None)
                if (c["scheme"], (c["host"] or b"").lower().strip(b"[]"), tport) != (o["scheme"].encode(), host.encode(), port):
                    vio.append(V(P, "wrong-connection", f"{what}: absolute target {ex['target']!r} names another origin", mode=mode, **sig))
        else:
            mode = "tunnel"
            if pipe.target != PROXY_ADDR[proxy]:
                vio.append(V(P, "wrong-connection", f"{what}: written to a stream established to {pipe.target}, expected the proxy", mode=mode, **sig))
            elif ex["via"] is None or ex["via"][0] != "connect" or not same_hostport(ex["via"][1], host, port):
                vio.append(V(P, "wrong-connection", f"{what}: travelled through {ex['via']}, expected CONNECT {host}:{port}", mode=mode, **sig))
        # ---- TLS iff https/wss (the hop to an https proxy has its own marker)
        proxy_layers = 1 if proxy == "https" else 0
        want_depth = proxy_layers + (1 if secure else 0)
        if ex["tls_depth"] != want_depth:
            vio.append(V(P, "tls-mismatch", f"{what}: {ex['tls_depth']} TLS layer(s) on the stream when the request was written, expected "
                         f"{want_depth} ({'TLS' if secure else 'no TLS'} to the origin{', plus the proxy hop' if proxy_layers else ''})",
                         mode=mode, **sig))
        elif secure:
            t = pipe.tls[ex["tls_depth"] - 1]
            want_sni = [r["sni"]] if r.get("sni") else [host]
            if mode == "tunnel":
                want_sni = [host] + ([r["sni"]] if r.get("sni") else [])  # lenient: either is accepted for tunnels
            # a connection established by an earlier request of the history keeps that request's SNI
            earlier = [q.get("sni") for j, q in enumerate(case["requests"][:i])
                       if (q["origin"]["scheme"], bare(q["origin"]["host"]), eport(q["origin"])) == (o["scheme"], host, port)]
            want_sni += [s for s in earlier if s]
            if earlier:
                want_sni.append(host)
            if t["server_hostname"] not in want_sni:
                vio.append(V(P, "sni", f"{what}: TLS server name {t['server_hostname']!r}, expected one of {want_sni}", mode=mode, **sig))
            want_h2_offer = bool(case["http2"])
            if t["alpn"] is None or (("h2" in t["alpn"]) != want_h2_offer):
                vio.append(V(P, "alpn-offer", f"{what}: ALPN offered {t['alpn']} with http2={case['http2']}", mode=mode, **sig))
            if t["ctx"] != "origin-ctx":
                vio.append(V(P, "wrong-ssl-context", f"{what}: origin TLS used ssl context {t['ctx']}", mode=mode, **sig))
        # (the server name / context used for the hop to an https *proxy* is not part of the property: not judged)
        # ---- protocol spoken
        selected = pipe.tls[ex["tls_depth"] - 1]["selected"] if (secure and ex["tls_depth"] == want_depth and pipe.tls) else None
        want_h2 = (selected == "h2") or (case["http2"] and not case["http1"])
        if mode == "forward":
            want_h2 = False
        if (ex["proto"] == "h2") != want_h2:
            vio.append(V(P, "protocol", f"{what}: spoke {ex['proto']} (ALPN selected {selected})", mode=mode, **sig))
    return vio


def matrix(tier):
    cases = []
    for scheme, portform, proxy, (h1, h2), alpn, sni in itertools.product(
            ("http", "https", "ws", "wss"), ("implicit", "default", "other"), PROXIES, ((True, False), (True, True), (False, True)),
            ("h2", "http/1.1", None), (None, "sni.example")):
        port = {"implicit": None, "default": DEFAULT_PORT[scheme], "other": 8443 if scheme in SECURE else 8080}[portform]
        cases.append({"proxy": proxy, "http1": h1, "http2": h2, "alpn": alpn,
                      "requests": [{"origin": {"scheme": scheme, "host": "a.test", "port": port}, "sni": sni}],
                      "portform": portform})
    return cases


def execute_matrix(case) -> Outcome:
    vio = []
    for sync in (True, False):
        c = dict(case)
        c["sync"] = sync
        world, outs = run_history(c)
        for v in judge(c, world, outs):
            v["sig"]["variant"] = "sync" if sync else "async"
            v["msg"] = f"[{v['sig']['variant']}] " + v["msg"]
            del v["sig"]["variant"]
            vio.append(v)
    o = case["requests"][0]["origin"]
    tags = ["proxy-" + case["proxy"], "scheme-" + o["scheme"], "port-" + case["portform"]]
    nontrivial = case["proxy"] != "none" or o["scheme"] in SECURE
    return Outcome(vio[:6], tags, nontrivial, info={"pipes": len(world.pipes)}, metrics={"executions": 2})


HOSTS = ["a.test", "b.test", "A.Test", "10.0.0.1", "10.0.0.2", "[2001:db8::7]", "[2001:db8::8]"]


@st.composite
def histories(draw):
    base = {"scheme": draw(st.sampled_from(["http", "https", "ws", "wss"])), "host": draw(st.sampled_from(HOSTS[:2] + HOSTS[3:])),
            "port": draw(st.sampled_from([None, None, 80, 443, 8080]))}
    near = [dict(base)]
    # near misses: exactly one component differs (or only the spelling: explicit default port / host case)
    v = dict(base)
    v["port"] = draw(st.sampled_from([p for p in (None, 80, 443, 8080, 8081) if p != base["port"]]))
    near.append(v)
    v = dict(base)
    v["host"] = draw(st.sampled_from([h for h in HOSTS if h.lower() != base["host"].lower()]))
    near.append(v)
    v = dict(base)
    v["scheme"] = draw(st.sampled_from([s for s in ("http", "https", "ws", "wss") if s != base["scheme"]]))
    near.append(v)
    v = dict(base)
    v["port"] = DEFAULT_PORT[base["scheme"]] if base["port"] is None else base["port"]
    near.append(v)
    v = dict(base)
    v["host"] = base["host"].upper()
    near.append(v)
    n = draw(st.integers(2, 6))
    reqs = [{"origin": near[draw(st.integers(0, len(near) - 1))], "sni": draw(st.sampled_from([None, None, None, "sni.example"])),
             "ext": draw(st.sampled_from([False, False, False, False, True]))}
            for _ in range(n)]
    h1, h2 = draw(st.sampled_from([(True, False), (True, True), (False, True)]))
    return {"proxy": draw(st.sampled_from(list(PROXIES))), "http1": h1, "http2": h2, "alpn": draw(st.sampled_from(["h2", "http/1.1", None])),
            "requests": reqs, "sync": draw(st.booleans()), "max_connections": draw(st.sampled_from([10, 1, 2]))}


def execute_history(case) -> Outcome:
    world, outs = run_history(case)
    vio = judge(case, world, outs)
    origins = []
    for r in case["requests"]:
        o = r["origin"]
        key = (o["scheme"], bare(o["host"]), eport(o))
        if key not in origins:
            origins.append(key)
    one_diff = any(sum(1 for x, y in zip(a, b) if x != y) == 1 for a, b in itertools.combinations(origins, 2))
    tags = ["proxy-" + case["proxy"], f"origins={len(origins)}", f"pipes={min(len(world.pipes), 6)}"]
    if one_diff:
        tags.append("near-miss-pair")
    if len(world.pipes) < len(case["requests"]):
        tags.append("reuse")
    return Outcome(vio[:6], tags, one_diff, info={"pipes": len(world.pipes), "origins": len(origins)}, metrics={"executions": 1})


# ----------------------------------------------------------------------------- two pools sharing one ssl context, concurrent establishment

@st.composite
def shared_context_scenarios(draw):
    n = draw(st.integers(2, 4))
    return {"callers": [{"pool": draw(st.integers(0, 1)), "n": draw(st.integers(1, 2))} for _ in range(n)],
            "alpn": draw(st.sampled_from(["h2", "h2", "http/1.1"])), "proxy": draw(st.sampled_from(["none", "none", "http", "socks5"])),
            "choices": draw(st.lists(st.integers(0, 7), max_size=40))}


def execute_shared_context(sc) -> Outcome:
    from ..aio import AioRun, Caller

    eps = {"proxy.test:3128": {"role": "proxy"}, "socks.test:1080": {"role": "socks"}}
    cfg = NetConfig(endpoints=eps, default_endpoint={"role": "origin", "alpn": sc["alpn"]})
    world = World(peer_factory=cfg.peer_factory)
    pcs = []
    for http2 in (False, True):  # pool 0: HTTP/2 disabled, talks to a.test; pool 1: HTTP/2 enabled, talks to b.test
        pc = {"http1": True, "http2": http2, "max_connections": 4}
        if PROXIES[sc["proxy"]]:
            pc["proxy"] = {"url": PROXIES[sc["proxy"]]}
        pcs.append(pc)
    callers = []
    k = 0
    for i, c in enumerate(sc["callers"]):
        prog = []
        for _ in range(c["n"]):
            host = "a.test" if c["pool"] == 0 else "b.test"
            prog.append({"spec": {"method": "GET", "url": f"https://{host}/t/x{k}"}, "tok": f"x{k}", "mode": "read_all", "pool": c["pool"]})
            k += 1
        callers.append(Caller(i, prog))

    async def epilogue(r):
        for p in r.pools:
            await p.aclose()

    r = AioRun(world, pcs, callers, choices=sc["choices"], epilogue=epilogue)
    r.shared_ssl_context = True
    r.run()
    vio = []
    overlapped = False
    for p in world.pipes:
        leaf = p.peer.leaf()
        name = getattr(leaf, "name", "")
        host = name.split(":")[0]
        if host not in ("a.test", "b.test") or not p.tls:
            continue
        t = p.tls[-1]
        want_h2 = host == "b.test"
        if t["alpn"] is None or (("h2" in t["alpn"]) != want_h2):
            vio.append(V(P, "alpn-offer", f"two pools sharing one ssl context (proxy={sc['proxy']}): the TLS handshake with {host} (pool with http2={want_h2}) offered ALPN "
                         f"{t['alpn']}", mode="shared-context", proxy=sc["proxy"], scheme="https"))
        for ex in leaf.all_exchanges():
            if (ex["proto"] == "h2") and not want_h2:
                vio.append(V(P, "protocol", f"two pools sharing one ssl context: the pool with http2=False spoke HTTP/2 to {host}", mode="shared-context", proxy=sc["proxy"], scheme="https"))
    # did establishments of the two pools overlap in time (connect of one before the handshake of the other)?
    ev = [(o["seq"], o["kind"], o.get("host") or (world.pipes[o["pipe"]].target[0] if o["pipe"] is not None else None)) for o in world.trace if o["kind"] in ("connect", "start_tls")]
    open_connects = {}
    for seq, kind, host in ev:
        if kind == "connect":
            open_connects[seq] = host
    pools_used = {c["pool"] for c in sc["callers"]}
    overlapped = len(pools_used) == 2 and r.steps > 0
    if r.deadlock is not None:
        vio.append(V(P, "request-failed", f"shared-context scenario deadlocked: {r.deadlock}", mode="shared-context", proxy=sc["proxy"], scheme="https", exc="deadlock"))
    return Outcome(vio[:4], ["shared-ssl-context", "proxy-" + sc["proxy"]] + (["both-pools"] if len(pools_used) == 2 else []), overlapped,
                   info={"pipes": len(world.pipes), "steps": r.steps})


RULE = ("matrix layer (exhaustive, both tiers): scheme {http,https,ws,wss} x port {implicit, explicit default, other} x proxy {none, http, "
        "https, socks5, socks5h} x (http1,http2) in {(T,F),(T,T),(F,T)} x ALPN outcome {h2, http/1.1, none} x sni_hostname {absent, set}, "
        "sync and async = 2160 cells x 2. histories layer: 2-6 sequential requests over origins that differ from a base origin in "
        "exactly one of scheme / host / port (or only in spelling: explicit default port, host case), any proxy mode, pool limits 1, 2 "
        "or 10 (forcing evictions). shared-context layer (concurrent asyncio driver): two pools (http2 off / on) that share ONE ssl context object "
        "establish TLS connections to two origins concurrently under a generated schedule; every handshake must offer the ALPN list of its own pool. "
        "Non-trivial: a cell with a proxy or TLS; a history with two origins differing in exactly one "
        "component; distinct = distinct cell / history.")

PROP = Prop(
    P, level="exploration", rule=RULE,
    layers=[
        Layer("matrix", cases=matrix, execute=execute_matrix),
        Layer("histories", strategy=histories, execute=execute_history, budget={"quick": 2000, "thorough": 60000}),
        Layer("shared-context", strategy=shared_context_scenarios, execute=execute_shared_context, budget={"quick": 800, "thorough": 30000}),
        __import__("vf.props.real", fromlist=["layer_for"]).layer_for("C10", {"quick": 300, "thorough": 8000}),
    ],
    assumptions=["TLS is a marker layer on the simulated pipe (server_hostname, ALPN offer and ssl context are recorded, no handshake); layer real-backends "
                 "performs real handshakes through httpcore's own backends and judges the server name and ALPN list parsed from the ClientHello on the wire",
                 "for CONNECT tunnels either the URL host or the sni_hostname extension is accepted as server name (the property leaves it open)",
                 "IPv6 literal hosts appear in the histories layer; whether the CONNECT target / SOCKS command spells them with brackets is not judged, the TLS server name must be the bare address"],
    explanation="Exhaustive over the configuration matrix; request histories sampled. Concurrent histories are covered by C01/C04.",
)
