"""C11 - proxy hops see exactly what is meant for them.

Generated: proxy kind x credentials x custom proxy headers (colliding case-insensitively with request headers, hand-written
Proxy-Authorization) x origin x request (headers, body) x proxy reply plan (CONNECT status/reason/headers; SOCKS method answer,
auth status, reply code, address type). Unique marker strings are planted in proxy header values, credentials, caller header
values and the body. Oracle: the proxy model's own parsers over the proxy-hop bytes and the tunnelled bytes.
"""
from __future__ import annotations

import base64

from hypothesis import strategies as st

from .. import gen
from ..common import Outcome, V
from ..drivers import async_request, build_pool, run_async, sync_request
from ..peers.endpoints import NetConfig
from ..prop import Layer, Prop
from ..simnet import World
from .c19 import ref_split

P = "C11"
DEFAULT_PORT = {"http": 80, "https": 443, "ws": 80, "wss": 443}
PROXY_URL = {"http": "http://proxy.test:3128", "https": "https://proxy.test:3129", "socks5": "socks5://socks.test:1080",
             "socks5h": "socks5h://socks.test:1080"}


@st.composite
def cases(draw):
    kind = draw(st.sampled_from(["http", "https", "socks5", "socks5h"]))
    scheme = draw(st.sampled_from(["http", "http", "https", "https", "wss"]))
    host = draw(st.sampled_from(["a.test", "b.test", "10.1.2.3", "xn--nxasmq6b.example"]))
    port = draw(st.sampled_from([None, None, 80, 443, 8080, 8443, 1, 65535]))
    creds = draw(st.sampled_from([None, None, ["PXU-user", "PXP-pass"], ["u:ser", "p@ss:PXP"], ["", ""]]))
    def clean(text):
        # the random parts must never contain a marker by accident (markers are matched as substrings)
        for a, b in (("PX", "Px"), ("CL", "Cl"), ("px", "pX"), ("cl", "cL")):
            text = text.replace(a, b)
        return text

    def clean_name(text):
        # header NAMES are also used in other letter cases (colliding proxy headers): no "cl" / "px" in any case may survive
        import re

        return re.sub(r"(?i)(c)(l)", r"\1-\2", re.sub(r"(?i)(p)(x)", r"\1-\2", text))

    caller_headers = draw(gen.header_list(max_size=4))
    caller_headers = [[clean_name(n), f"CLH{i}-{clean(v)}"] for i, (n, v) in enumerate(caller_headers)]
    proxy_headers = []
    if kind in ("http", "https"):
        proxy_headers = draw(gen.header_list(max_size=3))
        proxy_headers = [[clean_name(n), f"PXH{i}-{clean(v)}"] for i, (n, v) in enumerate(proxy_headers)]
        if caller_headers and draw(st.booleans()):
            n = caller_headers[draw(st.integers(0, len(caller_headers) - 1))][0]
            proxy_headers.insert(draw(st.integers(0, len(proxy_headers))), [draw(st.sampled_from([n, n.upper(), n.lower(), n.swapcase()])), "PXHc-collides"])
        if draw(st.integers(0, 4)) == 0:
            proxy_headers.append([draw(st.sampled_from(["Proxy-Authorization", "proxy-authorization"])), "PXH-Basic handwritten"])
        if draw(st.integers(0, 5)) == 0:
            caller_headers.append([draw(st.sampled_from(["Proxy-Authorization", "proxy-authorization"])), "CLH-own-proxy-auth"])
    body = draw(st.sampled_from([None, None, b"CLB-body-bytes", {"chunks": [b"CLB-1", b"", b"CLB-2"]}]))
    reply = {}
    if kind in ("http", "https"):
        reply = {"status": draw(st.one_of(st.sampled_from([200, 200, 200, 201, 204, 299, 300, 403, 407, 500, 502, 599]), st.integers(200, 599))),
                 "reason": draw(gen.reason), "headers": draw(gen.header_list(max_size=2)),
                 "body_len": draw(st.sampled_from([0, 0, 5, 100]))}
    else:
        reply = {"method": draw(st.sampled_from([None] * 12 + [0, 1, 2, 255, 128])),
                 "auth_status": draw(st.sampled_from([0] * 8 + [1, 255])),
                 "reply": draw(st.sampled_from([0] * 10 + [1, 2, 3, 4, 5, 6, 7, 8])),
                 "atyp": draw(st.sampled_from([1, 1, 3, 4]))}
    return {"kind": kind, "scheme": scheme, "host": host, "port": port, "creds": creds, "caller_headers": caller_headers,
            "proxy_headers": proxy_headers, "body": body, "reply": reply, "method": draw(st.sampled_from(["GET", "POST", "PUT"])),
            "ext_target": draw(st.sampled_from([None, None, None, None, b"*"])),
            "target": draw(st.sampled_from(["/", "/t/x0?q=1", "/a;p=1/b"])), "sync": draw(st.booleans()),
            "second": draw(st.booleans()), "resend_object": draw(st.booleans()),
            # the sni_hostname extension names the TLS server name only: the proxy hop (CONNECT target, SOCKS command) still names the origin
            "sni": draw(st.sampled_from([None, None, None, "front.sni.example"]))}


MARK_PROXY = (b"PXH", b"PXU", b"PXP")
MARK_CALLER = (b"CLH", b"CLB")


def contains_any(data: bytes, marks):
    return [m for m in marks if m in data]


def execute(case) -> Outcome:
    vio = []
    kind = case["kind"]
    scheme, host, port = case["scheme"], case["host"], case["port"]
    eport = port if port is not None else DEFAULT_PORT[scheme]
    eps = {"proxy.test:3128": {"role": "proxy"}, "proxy.test:3129": {"role": "proxy"}, "socks.test:1080": {"role": "socks"}}
    socks = dict(case["reply"]) if kind.startswith("socks") else None
    proxy_plan = dict(case["reply"]) if not kind.startswith("socks") else None
    cfg = NetConfig(endpoints=eps, proxy=proxy_plan, socks=socks)
    world = World(peer_factory=cfg.peer_factory)
    pcfg = {"proxy": {"url": PROXY_URL[kind], "auth": case["creds"], "headers": case["proxy_headers"] or None}}
    pool = build_pool(world, pcfg, sync=case["sync"])
    url = f"{scheme}://{host}" + (f":{port}" if port is not None else "") + case["target"]
    hdrs = [list(h) for h in case["caller_headers"]] + [["x-tok", "c0"]]
    body = case["body"]
    if case["method"] == "GET":
        body = None
    spec = {"method": case["method"], "url": url, "headers": hdrs, "content": body, "ext_target": case["ext_target"], "sni": case.get("sni")}
    spec2 = {"method": "GET", "url": f"{scheme}://{host}" + (f":{port}" if port is not None else "") + "/t/c1", "headers": [["x-tok", "c1"], ["X-Second", "CLH-second"]]}
    outs = []
    # one hand-made Request OBJECT sent twice (a caller that retries): both transmissions must look the same on the proxy hop
    import httpcore as _hc

    url3 = f"{scheme}://{host}" + (f":{port}" if port is not None else "") + "/t/c2?again=1"
    resend = bool(case.get("resend_object")) and kind in ("http", "https") and scheme == "http"
    resend_excs = []
    if case["sync"]:
        outs.append(sync_request(pool, spec))
        if case["second"]:
            outs.append(sync_request(pool, spec2))
        if resend:
            req3 = _hc.Request("GET", url3, headers=[(b"Host", host.encode()), (b"x-tok", b"c2"), (b"X-Third", b"CLH-third")])
            for _ in range(2):
                try:
                    r3 = pool.handle_request(req3)
                    r3.read()
                    r3.close()
                except Exception as exc:
                    resend_excs.append(type(exc).__name__)
        pool.close()
    else:
        async def go():
            outs.append(await async_request(pool, spec))
            if case["second"]:
                outs.append(await async_request(pool, spec2))
            if resend:
                req3 = _hc.Request("GET", url3, headers=[(b"Host", host.encode()), (b"x-tok", b"c2"), (b"X-Third", b"CLH-third")])
                for _ in range(2):
                    try:
                        r3 = await pool.handle_async_request(req3)
                        await r3.aread()
                        await r3.aclose()
                    except Exception as exc:
                        resend_excs.append(type(exc).__name__)
            await pool.aclose()

        run_async(go())
    out = outs[0]
    what = f"[{'sync' if case['sync'] else 'async'}] {kind} proxy, {case['method']} {url}"
    tags = ["proxy-" + kind, "scheme-" + scheme]
    if case["creds"]:
        tags.append("credentials")
    caller_names = {n.lower() for n, _ in hdrs}
    if any(n.lower() in caller_names for n, _ in case["proxy_headers"]):
        tags.append("colliding-headers")
    if body is not None:
        tags.append("body")
    exp_body = b"" if body is None else (body if isinstance(body, bytes) else b"".join(body["chunks"]))
    if not world.pipes:
        vio.append(V(P, "no-connection", f"{what}: nothing was connected: {out['exc']}", mode=kind))
        return Outcome(vio, tags, True)
    pipe = world.pipes[0]
    peer = pipe.peer

    # expected proxy header list as configured (Proxy-Authorization from credentials goes first)
    pxh = [(n.encode("latin-1"), v.encode("latin-1")) for n, v in case["proxy_headers"]]
    if case["creds"] and kind in ("http", "https"):
        token = base64.b64encode((case["creds"][0] + ":" + case["creds"][1]).encode())
        pxh = [(b"Proxy-Authorization", b"Basic " + token)] + pxh

    if kind in ("http", "https") and scheme == "http":
        # ------------------------------------------------------------------ forwarding
        mode = "forward"
        tags.append("forward")
        exs = [e for e in peer.exchanges if e["token"] == "c0"]
        if out["exc"] is not None or len(exs) != 1:
            vio.append(V(P, "forward-failed", f"{what}: outcome {out['exc'] or out.get('status')}, {len(exs)} forwarded request(s) seen", mode=mode))
        else:
            ex = exs[0]
            c = ref_split(ex["target"])
            exp_target = case["target"].encode() if case["ext_target"] is None else case["ext_target"]
            port_ok = not c["port"] or c["port"].isdigit()
            got_origin = (c["scheme"], (c["host"] or b"").lower(), (int(c["port"]) if c["port"] else DEFAULT_PORT.get((c["scheme"] or b"").decode())) if port_ok else c["port"])
            got_target = (c["path"] or b"") + ((b"?" + c["query"]) if c["query"] else b"")
            if case["ext_target"] is not None:
                tags.append("forward-with-target-extension-unjudged")  # no defined behaviour: the caller replaced the target
            elif got_origin != (scheme.encode(), host.encode(), eport) or c["userinfo"] is not None:
                vio.append(V(P, "forward-target", f"{what}: request line target {ex['target']!r} does not name {scheme}://{host}:{eport}", mode=mode))
            elif got_target != exp_target and case["ext_target"] is None:
                vio.append(V(P, "forward-target", f"{what}: absolute target {ex['target']!r} lost the request target {exp_target!r}", mode=mode))
            # merge law: proxy headers beneath the caller's (caller wins case-insensitively), order kept
            caller = [(n.encode("latin-1"), v.encode("latin-1")) for n, v in hdrs]
            if b"host" not in {n.lower() for n, _ in caller}:
                hv = host.encode() + (b":%d" % port if port is not None and port != DEFAULT_PORT[scheme] else b"")
                caller = [(b"Host", hv)] + caller
            if body is not None:
                caller = caller + ([(b"Content-Length", str(len(body)).encode())] if isinstance(body, bytes) else [(b"Transfer-Encoding", b"chunked")])
            cn = {n.lower() for n, _ in caller}
            merged = [(n, v) for n, v in pxh if n.lower() not in cn] + caller
            hosts = [h for h in merged if h[0].lower() == b"host"]
            others = [h for h in merged if h[0].lower() != b"host"]
            want = [(n.lower(), v) for n, v in hosts + others]
            got = [(n.lower(), v) for n, v in ex["headers"]]
            if got != want and got != [(n.lower(), v) for n, v in merged]:
                vio.append(V(P, "forward-headers", f"{what}: forwarded header list {ex['headers']!r}, expected merge {merged!r}", mode=mode))
            if ex["body"] != exp_body:
                vio.append(V(P, "forward-body", f"{what}: forwarded body {ex['body'][:40]!r}", mode=mode))
        if case["second"] and len(outs) > 1 and outs[1]["exc"] is None:
            # a second request on the (normally reused) forward connection carries the proxy headers merged beneath ITS OWN headers and nothing else
            exs2 = [e for p_ in world.pipes for e in p_.peer.exchanges if e["token"] == "c1"]
            if len(exs2) == 1:
                caller2 = [(b"Host", host.encode() + (b":%d" % port if port is not None and port != DEFAULT_PORT[scheme] else b"")), (b"x-tok", b"c1"), (b"X-Second", b"CLH-second")]
                cn2 = {n.lower() for n, _ in caller2}
                merged2 = [(n, v) for n, v in pxh if n.lower() not in cn2] + caller2
                got2 = sorted((n.lower(), v) for n, v in exs2[0]["headers"])
                if got2 != sorted((n.lower(), v) for n, v in merged2):
                    vio.append(V(P, "forward-headers-second-request", f"{what}: the second forwarded request carried {exs2[0]['headers']!r}, expected the merge "
                                 f"{merged2!r} (headers of an earlier request must not reappear)", mode=mode))
                tags.append("second-forwarded-request")
        if resend:
            exs3 = [e for p_ in world.pipes for e in p_.peer.exchanges if e["token"] == "c2"]
            tags.append("request-object-sent-twice")
            if len(exs3) == 2:
                t1, t2 = exs3[0]["target"], exs3[1]["target"]
                c3 = ref_split(t2)
                if t1 != t2 or [(n.lower(), v) for n, v in exs3[0]["headers"]] != [(n.lower(), v) for n, v in exs3[1]["headers"]]:
                    vio.append(V(P, "forward-resent-object", f"{what}: the same Request object sent twice through the forwarding proxy went out as "
                                 f"{t1!r} {exs3[0]['headers']!r} and then as {t2!r} {exs3[1]['headers']!r}", mode=mode))
                elif (c3["scheme"], (c3["host"] or b"").lower()) != (scheme.encode(), host.encode()):
                    vio.append(V(P, "forward-target", f"{what}: request line target {t2!r} of a hand-made Request does not name {scheme}://{host}", mode=mode))
            elif not resend_excs and 200 <= case["reply"].get("status", 200) < 600:
                vio.append(V(P, "forward-resent-object", f"{what}: the same Request object was sent twice but the proxy saw {len(exs3)} request(s) for it", mode=mode))
    elif kind in ("http", "https"):
        # ------------------------------------------------------------------ CONNECT tunnel
        mode = "tunnel"
        tags.append("tunnel")
        status = case["reply"]["status"]
        ok = 200 <= status <= 299
        if not ok:
            tags.append("connect-refused")
        if not peer.exchanges or peer.exchanges[0]["method"] != b"CONNECT":
            first = peer.exchanges[0]["method"] if peer.exchanges else None
            vio.append(V(P, "connect-missing", f"{what}: first message on the proxy connection is {first!r}, not CONNECT", mode=mode))
        else:
            cx = peer.exchanges[0]
            want_t = f"{host}:{eport}".encode()
            if cx["target"] != want_t:
                vio.append(V(P, "connect-target", f"{what}: CONNECT target {cx['target']!r}, expected {want_t!r}", mode=mode,
                             ext_target=case["ext_target"] is not None))
            hostv = [v for n, v in cx["headers"] if n.lower() == b"host"]
            if hostv != [want_t]:
                vio.append(V(P, "connect-host", f"{what}: CONNECT Host header {hostv!r}, expected [{want_t!r}]", mode=mode))
            raw = cx["req"]["raw_head"]
            leaked = contains_any(raw, MARK_CALLER)
            if leaked:
                vio.append(V(P, "caller-data-in-connect", f"{what}: caller markers {leaked} appear in the CONNECT request {raw!r}", mode=mode))
            # proxy headers / credentials are on the proxy hop
            got = [(n.lower(), v) for n, v in cx["headers"]]
            for n, v in pxh:
                overridden = n.lower() in (b"host", b"accept") and False
                if (n.lower(), v) not in got:
                    vio.append(V(P, "proxy-header-missing", f"{what}: proxy header {n!r}: {v!r} is not in the CONNECT request {cx['headers']!r}", mode=mode))
                    break
            if cx["framing"] != "none" or cx["body"]:
                vio.append(V(P, "connect-body", f"{what}: CONNECT carried a body ({cx['framing']})", mode=mode))
            connect_len = len(raw)
            if ok:
                if pipe.neg_written is not None and pipe.neg_written != connect_len:
                    vio.append(V(P, "early-bytes", f"{what}: {pipe.neg_written - connect_len} extra bytes were written before the CONNECT reply", mode=mode))
                inner = peer.inner
                inner_bytes = bytes(pipe.written[connect_len:])
                leaked = contains_any(inner_bytes, MARK_PROXY)
                if leaked or (case["creds"] and kind in ("http", "https") and base64.b64encode((case["creds"][0] + ":" + case["creds"][1]).encode()) in inner_bytes and case["creds"][0]):
                    vio.append(V(P, "proxy-data-in-tunnel", f"{what}: proxy markers {leaked or 'credentials'} appear inside the tunnel", mode=mode))
                if inner is not None and any(n.lower() == b"proxy-authorization" and v.startswith(b"Basic ") and not v.startswith(b"Basic handwritten") and b"CLH" not in v
                                             for e in inner.all_exchanges() for n, v in e["headers"]):
                    vio.append(V(P, "proxy-data-in-tunnel", f"{what}: Proxy-Authorization appears inside the tunnel", mode=mode))
                exs = [e for e in (inner.all_exchanges() if inner else []) if e["token"] == "c0"]
                if out["exc"] is not None or len(exs) != 1:
                    vio.append(V(P, "tunnel-failed", f"{what}: CONNECT answered {status} but the request ended with {out['exc'] or out.get('status')} "
                                 f"({len(exs)} tunnelled request(s))", mode=mode))
                else:
                    if exs[0]["tls_depth"] != (1 if kind == "https" else 0) + (1 if scheme in ("https", "wss") else 0):
                        vio.append(V(P, "tunnel-tls", f"{what}: tunnelled request at TLS depth {exs[0]['tls_depth']}", mode=mode))
                    if exs[0]["body"] != exp_body:
                        vio.append(V(P, "tunnel-body", f"{what}: tunnelled body {exs[0]['body'][:40]!r}", mode=mode))
            else:
                if out["exc"] is None or out["exc"]["name"] != "ProxyError":
                    vio.append(V(P, "refusal-not-proxyerror", f"{what}: CONNECT answered {status} {case['reply']['reason']!r} but the call gave "
                                 f"{out['exc']['type'] if out['exc'] else out.get('status')}", mode=mode))
                if len(pipe.written) != connect_len:
                    vio.append(V(P, "bytes-after-refusal", f"{what}: {len(pipe.written) - connect_len} bytes written on the proxy connection after the "
                                 f"{status} reply", mode=mode))
    else:
        # ------------------------------------------------------------------ SOCKS5
        mode = "socks"
        tags.append("socks")
        r = case["reply"]
        want_method = 2 if case["creds"] else 0
        g = peer.greeting
        if g is None:
            vio.append(V(P, "socks-no-greeting", f"{what}: no well-formed greeting ({peer.errors})", mode=mode))
        else:
            if g["methods"] != [want_method]:
                vio.append(V(P, "socks-methods", f"{what}: greeting offered methods {g['methods']}, expected [{want_method}]", mode=mode))
            chosen = r["method"] if r["method"] is not None else g["methods"][0]
            success = chosen == want_method
            if success and chosen == 2:
                a = peer.auth
                if a is None or [a["username"], a["password"]] != [case["creds"][0].encode(), case["creds"][1].encode()]:
                    vio.append(V(P, "socks-credentials", f"{what}: sub-negotiation carried {a}, configured {case['creds']}", mode=mode))
                success = r["auth_status"] == 0
            elif peer.auth is not None:
                vio.append(V(P, "socks-credentials", f"{what}: credentials sent although method {chosen} was selected", mode=mode))
            if success:
                c = peer.command
                if c is None:
                    vio.append(V(P, "socks-no-command", f"{what}: negotiation succeeded but no command request was seen", mode=mode))
                else:
                    if c["cmd"] != 1 or c["host"].lower() != host.lower() or c["port"] != eport:
                        vio.append(V(P, "socks-command", f"{what}: command {c['cmd']} to {c['host']}:{c['port']}, expected CONNECT(1) to {host}:{eport}", mode=mode))
                    success = r["reply"] == 0
            elif peer.command is not None:
                vio.append(V(P, "socks-command-after-refusal", f"{what}: command sent although authentication was refused", mode=mode))
            # credentials only inside the sub-negotiation
            if case["creds"] and case["creds"][1]:
                cred_pw = case["creds"][1].encode()
                after = bytes(pipe.written[pipe.neg_written:]) if pipe.neg_written is not None else b""
                if cred_pw in after and b"PXP" in cred_pw:
                    vio.append(V(P, "credentials-in-stream", f"{what}: SOCKS password appears after the negotiation", mode=mode))
            if peer.early_http or any(k == "after-refusal" for k, *_ in peer.log):
                vio.append(V(P, "http-before-success", f"{what}: bytes were written although the negotiation had not succeeded: {peer.log[-1]}", mode=mode))
            if success:
                exs = [e for e in peer.all_exchanges() if e["token"] == "c0"]
                if out["exc"] is not None or len(exs) != 1:
                    vio.append(V(P, "socks-failed", f"{what}: negotiation succeeded but the request gave {out['exc'] or out.get('status')}", mode=mode))
                elif exs[0]["body"] != exp_body:
                    vio.append(V(P, "socks-body", f"{what}: body {exs[0]['body'][:40]!r}", mode=mode))
            else:
                tags.append("socks-refused")
                if out["exc"] is None or out["exc"]["name"] != "ProxyError":
                    vio.append(V(P, "refusal-not-proxyerror", f"{what}: SOCKS answer (method {r['method']}, auth {r['auth_status']}, reply {r['reply']}) "
                                 f"gave {out['exc']['type'] if out['exc'] else out.get('status')}", mode=mode,
                                 exc=out["exc"]["type"] if out["exc"] else None))
    nontrivial = any(t in tags for t in ("credentials", "colliding-headers", "body", "connect-refused", "socks-refused"))
    return Outcome(vio[:6], tags, nontrivial, info={"outcome": out.get("status") or out["exc"]["name"], "pipes": len(world.pipes)})


RULE = ("proxy kind {http, https, socks5, socks5h} x credentials {none, user:pass incl. ':' and '@', empty} x 0-3 custom proxy headers (with names "
        "colliding case-insensitively with request headers, hand-written Proxy-Authorization) x origin (scheme http/https/wss, names and IPv4, "
        "implicit/default/other ports incl. 1 and 65535) x request (GET/POST/PUT, 0-5 headers, body bytes / iterator with empty chunk, "
        "'target' extension) x proxy reply (CONNECT: status 200-599 with any reason, headers, optional body; SOCKS: method answer incl. "
        "wrong/0xFF, auth status, reply code 0-8, address type 1/3/4); sync or async. Non-trivial: credentials, colliding headers, a body, "
        "or a refusing reply; distinct = distinct case.")

PROP = Prop(
    P, level="exploration", rule=RULE,
    layers=[Layer("proxy-hops", strategy=cases, execute=execute, budget={"quick": 4000, "thorough": 120000})],
    assumptions=["the proxy model's own HTTP/1.1 parser and RFC 1928/1929 parser (vf/peers/endpoints.py) decode the proxy hop",
                 "CONNECT replies are final statuses 200-599 (interim 1xx replies are not a final answer); SOCKS reply codes 9-255 and "
                 "malformed replies belong to C15",
                 "marker strings (PXH/PXU/PXP for the proxy side, CLH/CLB for the caller) make leaks visible as substring matches"],
    explanation="Sampled configurations and replies; every byte written on the proxy connection is attributed to the hop or the tunnel.",
)
