"""C12 - HTTP/2 streams are isolated, bounded and cannot wedge each other.

2-8 concurrent requests share one HTTP/2 connection on the harness-scheduled asyncio driver. The HTTP/2 peer (hyperframe + hpack, own
stream table) emits HEADERS / DATA / RST_STREAM / SETTINGS(MAX_CONCURRENT_STREAMS up or down, also below the number in flight) / PING one
frame at a time in scheduler-chosen order, cut into reads at generated points; callers read fully, partly then abandon, or never read.
Oracle: per-stream token echo; the peer's own count of open streams at every stream-opening HEADERS vs the limit in force (1 until a
SETTINGS frame carrying MAX_CONCURRENT_STREAMS was ACKed, then min(value, 100)); requests beyond the limit complete later; every stream
that was not itself reset completes - a deadlock or an exception on a non-reset stream is a violation.
"""
from __future__ import annotations

from hypothesis import strategies as st

from ..aio import AioRun, Caller
from ..common import Outcome, V
from ..peers.h1 import norm_plan, response_body
from ..prop import Layer, Prop
from ..simnet import World
from ..topo import topo

P = "C12"


@st.composite
def scenarios(draw):
    n = draw(st.integers(2, 8))
    kind = draw(st.sampled_from(["direct-h2", "direct-h2", "prior-h2", "tunnel-h2"]))
    callers = []
    plans = {}
    for i in range(n):
        tok = f"s{i}"
        mode = draw(st.sampled_from(["read_all", "read_all", "read_all", "read_all", "read1", "read2", "close_unread", "hold", "hold"]))
        method = draw(st.sampled_from(["GET", "GET", "POST"]))
        callers.append({"tok": tok, "mode": mode, "method": method})
        plans[tok] = {"status": draw(st.sampled_from([200, 200, 404])), "body_len": draw(st.one_of(st.integers(0, 120), st.integers(0, 3000))),
                      "h2_frames": [draw(st.integers(1, 60)), draw(st.integers(1, 600))], "interim": draw(st.sampled_from([[], [], [103]])),
                      "h2_trailers": draw(st.sampled_from([False, False, True]))}
        if plans[tok]["body_len"] / min(plans[tok]["h2_frames"]) > 120:
            plans[tok]["h2_frames"] = [max(f, plans[tok]["body_len"] // 60 + 1) for f in plans[tok]["h2_frames"]]
    mcs0 = draw(st.sampled_from([None, 1, 2, 3, 3, 5, 100, 100, 100]))
    script = []
    for _ in range(draw(st.integers(0, 3))):
        ev = draw(st.sampled_from(["headers", "headers", "data", "request_complete", "response_sent", "settings_ack"]))
        act = draw(st.sampled_from([{"settings": {"3": v}} for v in (1, 1, 2, 3, 5, 100)] + [{"rst": {"sid": "last"}}, {"rst": {"sid": "first"}}, {"ping": True}, {"ping": {"gate": True}}, {"ping": {"gate": True}}]))
        script.append({"when": {"event": ev, "n": draw(st.integers(0, 4))}, "do": [act]})
    if n >= 3 and draw(st.integers(0, 2)) == 0:
        # a reactive server: the response to one request is produced only after ANOTHER request has been received. A correct client
        # always gets there provided more than one stream slot exists, so the limit is kept >= 2 in these scenarios.
        i = draw(st.integers(0, n - 1))
        j = draw(st.integers(0, n - 2))
        j = j if j < i else j + 1
        plans[callers[i]["tok"]]["after_request"] = callers[j]["tok"]
        if callers[j]["mode"] == "hold":
            callers[j]["mode"] = "read_all"
        mcs0 = mcs0 if mcs0 in (2, 3, 5, 100) else 3
        script = [item for item in script if not any("settings" in a and int(a["settings"]["3"]) < 2 for a in item["do"])]
    return {"kind": kind, "callers": callers, "plans": plans, "mcs0": mcs0, "script": script, "max_connections": draw(st.sampled_from([1, 1, 2])),
            "choices": draw(st.lists(st.integers(0, 15), min_size=10, max_size=160)), "segs": draw(st.lists(st.sampled_from([0, 0, 1, 5, 9, 13, 100]), max_size=5)),
            "runtime": draw(st.sampled_from(["asyncio", "asyncio", "trio"])),
            "bursts": draw(st.sampled_from([[], [], [1], [0, 1], [2, 0, 1], [0, 0, 3, 1]]))}


def run(sc):
    total = sum(pl.get("body_len", 0) + 60 for pl in sc["plans"].values())
    floor = total // 1500 + 1  # keep one case cheap: tiny read segments only together with little data
    if any(0 < s_ < floor for s_ in sc["segs"]):
        sc = dict(sc)
        sc["segs"] = [s_ if (s_ == 0 or s_ >= floor) else floor for s_ in sc["segs"]]
    init = {} if sc["mcs0"] is None else {"3": sc["mcs0"]}
    pool_cfg, cfg, scheme = topo(sc["kind"], plans=sc["plans"], pool_extra={"max_connections": sc["max_connections"]},
                                 h2={"initial_settings": init, "script": [dict(x) for x in sc["script"]]})
    world = World(peer_factory=cfg.peer_factory)
    callers = []
    for i, c in enumerate(sc["callers"]):
        spec = {"method": c["method"], "url": f"{scheme}://a.test/t/{c['tok']}"}
        if c["method"] == "POST":
            spec["content"] = {"chunks": [b"up-", c["tok"].encode()]}
        mode = {"read_all": "read_all", "read1": {"read_chunks": 1}, "read2": {"read_chunks": 2}, "close_unread": "close_unread", "hold": "hold"}[c["mode"]]
        callers.append(Caller(i, [{"spec": spec, "tok": c["tok"], "mode": mode, "method": c["method"]}]))

    async def epilogue(r):
        r.final_repr = repr(r.pool)
        await r.pool.aclose()

    from ..trio_run import make_run

    r = make_run(sc.get("runtime"))(world, pool_cfg, callers, choices=sc["choices"], segs=sc["segs"], epilogue=epilogue, step_limit=8000,
                                    bursts=sc.get("bursts", ()))
    r.final_repr = None
    r.run()
    return r, world, callers


def execute(sc) -> Outcome:
    r, world, callers = run(sc)
    vio = []
    base = dict(conn=sc["kind"])
    peers = [p.peer.leaf().h2 for p in world.pipes if getattr(p.peer.leaf(), "h2", None) is not None]
    announced = [v for h2 in peers for v in h2.mcs_sent]  # in the order the server actually sent them
    decrease = any(any(b < a for a, b in zip(h2.mcs_sent, h2.mcs_sent[1:])) for h2 in peers)
    abandon = any(c["mode"] in ("read1", "read2", "close_unread") for c in sc["callers"])
    trigger = "settings-decrease" if decrease else ("settings" if len(announced) > 1 else "none")
    base["trigger"] = trigger
    base["abandoned_sibling"] = abandon
    lowered = False
    zero = False
    settings_changes = 0
    for h2 in peers:
        for k, msg in h2.violations:
            if k == "max-concurrent-streams":
                vio.append(V(P, "stream-limit-exceeded", f"{sc['kind']}: {msg}", zero_limit=(h2.mcs_acked == 0), **base))
            elif k in ("headers-on-closed", "data-on-closed", "double-end-stream", "stream-id"):
                vio.append(V(P, "stream-state", f"{sc['kind']}: {msg}", **base))
        lowered = lowered or getattr(h2, "lowered_below_inflight", False)
        zero = zero or any(v == 0 for _, v in h2.mcs_history)
        settings_changes += len(h2.mcs_history)
    by_tok = {}
    for h2 in peers:
        for ex in h2.exchanges:
            by_tok.setdefault(ex["token"], []).append(ex)
    n_reset = 0
    for c in callers:
        step = c.program[0]
        tok = step["tok"]
        exs = by_tok.get(tok, [])
        reset = any(e.get("rst_by_server") for e in exs)
        n_reset += reset
        if not c.results:
            continue  # unfinished: reported as deadlock below
        out = c.results[0]
        plan = norm_plan(sc["plans"][tok])
        if out["exc"] is not None:
            if not reset:
                vio.append(V(P, "sibling-failed", f"{sc['kind']}: request {tok} failed with {out['exc']['type']}: {out['exc']['msg']} although its own stream was "
                             f"never reset (script {sc['script']})", exc=out["exc"]["name"], **base))
            continue
        exp = response_body(plan, tok, step["method"].encode())
        xt = [v for n, v in out["headers"] if n == b"x-tok"]
        if out["status"] != plan["status"] or xt != [tok.encode()]:
            vio.append(V(P, "wrong-stream", f"{sc['kind']}: caller of {tok} received status {out['status']} x-tok {xt}", **base))
        elif out.get("partial"):
            if not exp.startswith(out["body"]):
                vio.append(V(P, "wrong-data", f"{sc['kind']}: partial body of {tok} is not a prefix of its own DATA: {out['body'][:40]!r}", **base))
        elif out["body"] != exp and not reset:
            vio.append(V(P, "wrong-data", f"{sc['kind']}: {tok} received {len(out['body'])} bytes, its stream carried {len(exp)}: starts {out['body'][:30]!r}", **base))
    dep_failed = False
    for tok_, pl in sc["plans"].items():
        d = pl.get("after_request")
        if d is not None:
            dc = next((c for c in callers if c.program[0]["tok"] == d), None)
            if dc is not None and dc.results and dc.results[0]["exc"] is not None:
                dep_failed = True  # the request a reactive response waits for failed itself: the wedge is a consequence of that failure
    if dep_failed:
        base["prerequisite_request_failed"] = True
    if r.deadlock is not None:
        vio.append(V(P, "wedged", f"{sc['kind']}: callers {r.deadlock['blocked']} never return (parked ops {r.deadlock['parked']}) although the server has sent or can "
                     f"send everything it owes; initial MAX_CONCURRENT_STREAMS {sc['mcs0']}, script {sc['script']}; pool {r.pool!r}", **base))
    if r.overflow:
        vio.append(V(P, "livelock", f"{sc['kind']}: {r.busy or 'scheduler step limit exceeded'}", **base))
    for c in callers:
        if c.error is not None:
            vio.append(V(P, "caller-crashed", f"caller {c.id}: {c.error}", **base))
    max_open = max([h2.max_open_seen for h2 in peers] or [0])
    tags = [sc["kind"], f"n={len(callers)}", f"mcs0={sc['mcs0']}", f"max-open={min(max_open, 8)}", "runtime-" + (sc.get("runtime") or "asyncio")]
    if lowered:
        tags.append("settings-lowered-below-in-flight")
    if decrease:
        tags.append("settings-decrease")
    if settings_changes > 1:
        tags.append("settings-changed")
    if n_reset:
        tags.append("sibling-reset")
    if abandon:
        tags.append("abandoned")
    if zero:
        tags.append("mcs-zero")
    if any("after_request" in pl for pl in sc["plans"].values()):
        tags.append("reactive-server")
    nontrivial = max_open >= 3 and (lowered or settings_changes > 1 or n_reset > 0 or abandon)
    return Outcome(vio[:5], tags, nontrivial, info={"max_open": max_open, "steps": r.steps, "final": r.final_repr,
                                                   "outcomes": [(c.results[0].get("status") or c.results[0]["exc"]["name"]) if c.results else "unfinished" for c in callers]})


RULE = ("2-8 concurrent single-request callers (GET / POST with a 2-chunk body; read all, read 1-2 chunks then close, close unread, or hold the response "
        "open until the scheduler releases it) on one pooled HTTP/2 connection (ALPN, prior knowledge, CONNECT tunnel); server: initial "
        "MAX_CONCURRENT_STREAMS in {absent,1,2,3,100}, responses of 0-3000 bytes in DATA frames of 1-600 bytes, interim 103, trailers; 0-3 scripted "
        "peer actions at the n-th request-HEADERS / DATA / request-complete / response-sent / SETTINGS-ACK event: SETTINGS(MAX_CONCURRENT_STREAMS "
        "1/2/3/5/100), RST_STREAM of the first or newest stream, PING; every frame emission and every read completion is a scheduler choice, reads are "
        "cut at drawn sizes. Non-trivial: >= 3 streams in flight at once and a SETTINGS change, a reset sibling or an abandoning sibling; distinct = "
        "distinct scenario.")

@st.composite
def pool_history_scenarios(draw):
    """Undisturbed HTTP/2 histories through the pool (several origins, small limits, keep-alive limit 0/1): connections are evicted and closed while
    other requests are being set up on them."""
    from .conc import scenarios as conc_scenarios

    sc = draw(conc_scenarios(kinds=["direct-h2", "direct-h2", "prior-h2", "tunnel-h2", "socks-auth-tls-h2"], max_callers=5, limits=(1, 1, 2)))
    sc["faults"], sc["cancel"], sc["server_closes"] = [], None, 0
    sc.pop("h2_script", None)
    if not sc.get("bursts"):
        sc["bursts"] = draw(st.sampled_from([[1], [0, 1], [2, 0, 1], [1, 1, 0]]))
    return sc


def execute_pool_history(sc):
    from .conc import make_execute as conc_execute

    return conc_execute("C12")(sc)


PROP = Prop(
    P, level="exploration", rule=RULE,
    layers=[Layer("multiplexing", stall_is_violation=True, strategy=scenarios, execute=execute, budget={"quick": 2500, "thorough": 120000}),
            Layer("pool-histories", strategy=pool_history_scenarios, execute=execute_pool_history, budget={"quick": 1600, "thorough": 60000}),
            # enumerated: the victim is cancelled at EVERY suspension point while a sibling's exchange runs on the same connection (C01's layer, judged
            # for C12): the sibling must not end with the victim's cancellation
            Layer("cancel-with-sibling", cases=__import__("vf.props.c01x", fromlist=["cancel_cases_h2"]).cancel_cases_h2,
                  execute=__import__("vf.props.c01x", fromlist=["execute_cancel_c12"]).execute_cancel_c12),
            # the general concurrent histories (faults, one cancelled caller, peer actions) restricted to HTTP/2 kinds and judged for C12: a caller
            # that nobody cancelled must not end with a cancellation that belonged to a sibling
            Layer("disturbed-histories", strategy=lambda: __import__("vf.props.conc", fromlist=["scenarios"]).scenarios(kinds=["direct-h2", "prior-h2", "tunnel-h2", "socks-auth-tls-h2"]),
                  execute=__import__("vf.props.conc", fromlist=["make_execute"]).make_execute("C12"), budget={"quick": 1200, "thorough": 40000}),
            __import__("vf.props.real", fromlist=["concurrent_layer"]).concurrent_layer("C12", {"quick": 320, "thorough": 12000})],
    assumptions=["the peer's own stream accounting (vf/peers/h2.py) is the reference for the bound; the limit in force is the last value the client has ACKed",
                 "MAX_CONCURRENT_STREAMS=0 is not generated (grey zone: the client cannot both obey it and make progress)",
                 "asyncio and trio drivers; interleavings sampled (choice lists, two-actions-at-once bursts)",
                 "layer pool-histories: undisturbed HTTP/2 histories through the pool with evictions / keep-alive limit 0: a request must not fail because a sibling "
                 "completed or another origin needed the slot while it was being set up"],
    explanation="Schedule and frame-interleaving space sampled.",
)
