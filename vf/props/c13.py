"""C13 - HTTP/2 flow control is obeyed and never starves a transfer.

Layer 'uploads' (concurrent asyncio driver): 1-3 uploads (+ optionally a download) share one HTTP/2 connection; the peer chooses
INITIAL_WINDOW_SIZE, MAX_FRAME_SIZE, a WINDOW_UPDATE policy (immediate, tiny increments, stream-first, connection-first, lazy) and
may change INITIAL_WINDOW_SIZE mid-upload; every frame emission and read completion is a scheduler choice.
Layer 'inline' (single caller, sync and async): upload sizes around the window boundaries x policies; downloads beyond the client's
2^24 + 65,535 credit and sequences of multi-MiB downloads on one connection.
Oracle: the peer's OWN accounting - DATA frames never exceed the ACKed MAX_FRAME_SIZE nor drive the stream or connection window negative;
uploaded bytes equal the caller's body, END_STREAM once; no starvation (quiescent with an unfinished upload while the client holds positive
credit on both windows); downloads complete (the peer never exceeds the credit the client granted).
"""
from __future__ import annotations

from hypothesis import strategies as st

from ..aio import AioRun, Caller
from ..common import Outcome, V
from ..drivers import async_request, build_pool, run_async, sync_request
from ..peers.h1 import body_bytes, norm_plan, response_body
from ..prop import Layer, Prop
from ..simnet import World
from ..topo import topo

P = "C13"
W = 65535


def upload_body(tok, n):
    return body_bytes("U" + tok, n)


def chunked(body: bytes, sizes):
    out = []
    pos = 0
    i = 0
    sizes = [s for s in sizes if s >= 0] or [len(body) or 1]
    while pos < len(body):
        s = sizes[i % len(sizes)]
        i += 1
        if s == 0:
            out.append(b"")
            if all(x == 0 for x in sizes):
                s = len(body)
            else:
                continue
        out.append(body[pos:pos + s])
        pos += s
    return out


size_st = st.one_of(st.integers(0, 300), st.sampled_from([W - 1, W, W + 1, 2 * W, 2 * W + 1, 3 * W + 17, 4 * W]), st.integers(W, 4 * W))
chunk_st = st.lists(st.sampled_from([0, 1, 100, 16383, 16384, 16385, 40000, 70000, 200000]), min_size=1, max_size=3)


@st.composite
def h2_settings(draw):
    iws = draw(st.sampled_from([None, None, 0, 1, 100, 16384, W, 1 << 20]))
    mfs = draw(st.sampled_from([None, None, 16384, 16385, 65536, 1 << 20]))
    s = {"3": 100}
    if iws is not None:
        s["4"] = iws
    if mfs is not None:
        s["5"] = mfs
    return s


@st.composite
def upload_scenarios(draw):
    n = draw(st.integers(1, 3))
    ups = []
    for i in range(n):
        ups.append({"tok": f"u{i}", "size": draw(size_st), "chunks": draw(chunk_st), "as_bytes": draw(st.booleans())})
    settings = draw(h2_settings())
    sc = {"kind": draw(st.sampled_from(["direct-h2", "prior-h2", "tunnel-h2"])), "uploads": ups, "download": draw(st.sampled_from([None, None, 0, 500, 70000])),
          "settings": settings, "wu_mode": draw(st.sampled_from(["auto", "auto", "tiny", "stream_first", "conn_first", "lazy"])),
          "wu_inc": draw(st.sampled_from([1, 7, 1000, 16384, 50000])), "script": [],
          "choices": draw(st.lists(st.integers(0, 15), max_size=150)), "segs": draw(st.lists(st.sampled_from([0, 0, 9, 13, 26, 100]), max_size=4)),
          "runtime": draw(st.sampled_from(["asyncio", "asyncio", "trio"])),
          "bursts": draw(st.sampled_from([[], [], [], [1], [0, 1], [2, 0, 1]]))}
    if draw(st.integers(0, 3)) == 0:
        sc["script"].append({"when": {"event": "data", "n": draw(st.integers(0, 3))}, "do": [{"settings": {"4": draw(st.sampled_from([0, 1, 1000, W, 200000]))}}]})
    if draw(st.integers(0, 2)) == 0:
        # SETTINGS_MAX_FRAME_SIZE changes in the middle of an upload (raised, or lowered again after a big initial value)
        sc["script"].append({"when": {"event": "data", "n": draw(st.integers(0, 4))}, "do": [{"settings": {"5": draw(st.sampled_from([16384, 16384, 16385, 30000, 65536, 1 << 20]))}}]})
    return sc


def h2_cfg(sc):
    cfg = {"initial_settings": sc["settings"], "wu_mode": sc["wu_mode"], "wu_inc": sc["wu_inc"], "script": [dict(x) for x in sc.get("script", [])]}
    if sc["settings"].get("4") == 0 or any("settings" in a and a["settings"].get("4") == 0 for item in sc.get("script", []) for a in item["do"]):
        cfg["grant_on_headers"] = 30000
    return cfg


def tiny_cost(sc):
    """Keep one case cheap by construction: at most a few hundred DATA / WINDOW_UPDATE frames per upload."""
    sc = dict(sc)
    iws_values = [sc["settings"].get("4")] + [a["settings"].get("4") for item in sc.get("script", []) for a in item["do"] if "settings" in a]
    small = [v for v in iws_values if v is not None and v < 2000]
    ups = []
    for u in sc["uploads"]:
        u = dict(u)
        step = 16384
        if small:
            step = min(step, max(1, min(small)) if min(small) > 0 else 30000)
        if not u["as_bytes"]:
            pos = [c for c in u["chunks"] if c > 0]
            if pos:
                step = min(step, max(1, sum(pos) // len(pos)))
        if u["size"] / step > 120:
            u["size"] = int(step * 120)
        ups.append(u)
    sc["uploads"] = ups
    total = sum(u["size"] for u in ups)
    if sc["wu_mode"] in ("tiny", "stream_first", "conn_first") and total / max(1, sc["wu_inc"]) > 400:
        sc["wu_inc"] = max(sc["wu_inc"], total // 300 + 1)
    return sc


def judge_peers(world, expect, base, sc_desc):
    vio = []
    for p in world.pipes:
        h2 = getattr(p.peer.leaf(), "h2", None)
        if h2 is None:
            continue
        for k, msg in h2.violations:
            if k in ("frame-size", "conn-window", "stream-window"):
                vio.append(V(P, "flow-control-" + k, f"{sc_desc}: {msg}", **base))
            elif k in ("data-on-closed", "double-end-stream", "headers-on-closed"):
                vio.append(V(P, "stream-state", f"{sc_desc}: {msg}", **base))
        if h2.errors:
            vio.append(V(P, "peer-cannot-decode", f"{sc_desc}: {h2.errors[:2]}", **base))
        for ex in h2.exchanges:
            tok = ex["token"]
            if tok in expect and ex["complete"]:
                if bytes(ex["body"]) != expect[tok]:
                    got = bytes(ex["body"])
                    n = min(len(got), len(expect[tok]))
                    diff = next((i for i in range(n) if got[i] != expect[tok][i]), n)
                    vio.append(V(P, "upload-corrupted", f"{sc_desc}: upload {tok}: server received {len(got)} bytes, caller sent {len(expect[tok])}; first "
                                 f"difference at offset {diff}", **base))
                if ex["end_stream_count"] != 1:
                    vio.append(V(P, "end-stream", f"{sc_desc}: upload {tok} ended {ex['end_stream_count']} times", **base))
    return vio


def execute_uploads(sc) -> Outcome:
    sc = tiny_cost(sc)
    plans = {"d0": {"body_len": sc["download"] or 0, "h2_frames": [16384]}}
    pool_cfg, cfg, scheme = topo(sc["kind"], plans=plans, pool_extra={"max_connections": 1}, h2=h2_cfg(sc))
    world = World(peer_factory=cfg.peer_factory)
    callers = []
    expect = {}
    for i, u in enumerate(sc["uploads"]):
        body = upload_body(u["tok"], u["size"])
        expect[u["tok"]] = body
        content = body if u["as_bytes"] else {"chunks": chunked(body, u["chunks"])}
        callers.append(Caller(i, [{"spec": {"method": "POST", "url": f"{scheme}://a.test/t/{u['tok']}", "content": content}, "tok": u["tok"],
                                   "mode": "read_all", "method": "POST"}]))
    if sc["download"] is not None:
        callers.append(Caller(len(callers), [{"spec": {"method": "GET", "url": f"{scheme}://a.test/t/d0"}, "tok": "d0", "mode": "read_all", "method": "GET"}]))

    async def epilogue(r):
        await r.pool.aclose()

    from ..trio_run import make_run

    r = make_run(sc.get("runtime"))(world, pool_cfg, callers, choices=sc["choices"], segs=sc["segs"], epilogue=epilogue, step_limit=20000,
                                    bursts=sc.get("bursts", ()))
    r.run()
    desc = f"{sc['kind']} settings={sc['settings']} wu={sc['wu_mode']}/{sc['wu_inc']} uploads={[(u['size'], 'bytes' if u['as_bytes'] else u['chunks']) for u in sc['uploads']]} script={sc.get('script')}"
    base = dict(conn=sc["kind"], layer="uploads", uploads=len(sc["uploads"]))
    vio = judge_peers(world, expect, base, desc)
    peers = [p.peer.leaf().h2 for p in world.pipes if getattr(p.peer.leaf(), "h2", None) is not None]
    if r.deadlock is not None:
        # starvation analysis from the peer's own accounting
        starving = []
        for h2 in peers:
            for sid, stt in h2.streams.items():
                ex = stt["ex"]
                if ex["token"] in expect and not ex["complete"]:
                    starving.append((ex["token"], len(ex["body"]), len(expect[ex["token"]]), stt["recv_window"], h2.recv_conn_window, h2.owes()))
        credit = [s for s in starving if s[3] > 0 and s[4] > 0]
        if credit:
            vio.append(V(P, "upload-starved", f"{desc}: quiescent with callers {r.deadlock['blocked']} blocked (parked {r.deadlock['parked']}) although "
                         f"the client may send: " + "; ".join(f"{t}: {got}/{tot} bytes uploaded, stream window {sw}, connection window {cw}" for t, got, tot, sw, cw, _ in credit),
                         siblings=len(callers) > 1, **base))
        elif starving:
            vio.append(V(P, "harness-starves-client", f"{desc}: upload blocked with zero credit and the peer owes nothing: {starving}", **base))
        else:
            vio.append(V(P, "wedged", f"{desc}: callers {r.deadlock['blocked']} blocked, parked {r.deadlock['parked']}", **base))
    if r.overflow:
        vio.append(V(P, "livelock", f"{desc}: {r.busy or 'step limit'}", **base))
    for c in callers:
        if c.error is not None:
            vio.append(V(P, "caller-crashed", f"{desc}: caller {c.id}: {c.error}", **base))
        for out in c.results:
            if out["exc"] is not None:
                vio.append(V(P, "transfer-failed", f"{desc}: {c.program[0]['tok']} failed with {out['exc']['type']}: {out['exc']['msg']}", exc=out["exc"]["name"], **base))
            elif c.program[0]["tok"] == "d0" and out["body"] != response_body(norm_plan(plans["d0"]), "d0", b"GET"):
                vio.append(V(P, "download-corrupted", f"{desc}: download of {sc['download']} bytes arrived as {len(out['body'])} bytes", **base))
    total = sum(u["size"] for u in sc["uploads"])
    big = [u for u in sc["uploads"] if u["size"] > (sc["settings"].get("4", W) if sc["settings"].get("4") is not None else W)]
    n_wu = sum(1 for h2 in peers for l in h2.log if l[0] == "send" and l[1].startswith("WINDOW_UPDATE"))
    tags = [sc["kind"], "wu-" + sc["wu_mode"], f"uploads={len(sc['uploads'])}", f"iws={sc['settings'].get('4')}", f"mfs={sc['settings'].get('5')}",
            "runtime-" + (sc.get("runtime") or "asyncio")]
    if any("4" in a.get("settings", {}) for item in sc.get("script", []) for a in item["do"]):
        tags.append("window-setting-changed-mid-upload")
    if any("5" in a.get("settings", {}) for item in sc.get("script", []) for a in item["do"]):
        tags.append("frame-size-setting-changed-mid-upload")
    if big:
        tags.append("upload>window")
    if total > W and len(sc["uploads"]) >= 2:
        tags.append("shared-connection-window")
    nontrivial = bool(big and n_wu >= 2) or bool(sc.get("script")) or (len(sc["uploads"]) >= 2 and total > W)
    return Outcome(vio[:5], tags, nontrivial, info={"steps": r.steps, "window_updates": n_wu, "total_upload": total},
                   metrics={"bytes_uploaded": total})


# ----------------------------------------------------------------------------- inline layer

MiB = 1 << 20
CREDIT = (1 << 24) + W


def inline_cases(tier):
    cases = []
    for sync in (True, False):
        for mode, inc in (("auto", 0), ("tiny", 4096), ("stream_first", 30000), ("conn_first", 30000), ("lazy", 0)):
            for size in (0, 1, 257, W - 1, W, W + 1, 2 * W + 5, 4 * W):
                for iws in (None, 1, 16384, 1 << 20):
                    if iws == 1 and size > 300:
                        continue  # one byte per round trip: keep it to small bodies (sizes 0 and 1, plus 257 below)
                    for mfs in (None, 16385, 1 << 20):
                        if tier == "quick" and (size + (iws or 0) + (mfs or 0) + inc + sync) % 3 != 0:
                            continue
                        cases.append({"what": "upload", "sync": sync, "size": size, "chunks": [70000, 0, 1], "wu_mode": mode, "wu_inc": inc,
                                      "settings": {k: v for k, v in (("3", 100), ("4", iws), ("5", mfs)) if v is not None}})
        sizes = [CREDIT - 1, CREDIT, CREDIT + 1, 17 * MiB]
        if tier == "thorough":
            sizes += [40 * MiB, 2 * CREDIT + 3]
        for size in sizes:
            cases.append({"what": "download", "sync": sync, "sizes": [size], "frame": 16384})
        cases.append({"what": "download", "sync": sync, "sizes": [6 * MiB, 6 * MiB, 6 * MiB], "frame": 16384})
        # padding counts against the flow-control windows: 66,500 frames of 1 data octet + 255 padding octets use up more than the client's
        # up-front credit (2^24 + 65,535) although the body is tiny; the peer only sends what it has credit for
        # a long-lived connection: 700 small responses, each arriving whole (END_STREAM in the same read as all of its DATA), 28 MB in total - more
        # than the client's connection-level credit, so the credit for such frames has to come back too
        cases.append({"what": "download", "sync": sync, "sizes": [40000] * 700, "frame": 16384})
        cases.append({"what": "held-download", "sync": sync, "size": CREDIT + 3 * MiB})
        cases.append({"what": "download", "sync": sync, "sizes": [66500], "frame": 1, "pad": 255})
        cases.append({"what": "download", "sync": sync, "sizes": [3 * MiB, 3 * MiB], "frame": 8192, "pad": 200})
        if tier == "thorough":
            cases.append({"what": "download", "sync": sync, "sizes": [9 * MiB] * 5, "frame": 16384})
            cases.append({"what": "upload", "sync": sync, "size": 2 * MiB + 1, "chunks": [500000], "wu_mode": "lazy", "wu_inc": 0, "settings": {"3": 100}})
            cases.append({"what": "upload", "sync": sync, "size": MiB, "chunks": [MiB], "wu_mode": "tiny", "wu_inc": 8192, "settings": {"3": 100, "5": 1 << 20}})
    return cases


def execute_held_download(case) -> Outcome:
    """A big response is opened and left unread while a second, bodiless request on the same connection reads from the network: the big response's
    DATA is buffered until the server is out of credit. Then the big response is read: the credit for what the caller consumes has to reach the server,
    or the rest never comes."""
    size = case["size"]
    plans = {"big": {"body_len": size, "h2_frames": [16384]}, "small": {"status": 204, "body_len": 0}}
    pool_cfg, cfg, scheme = topo("direct-h2", plans=plans)
    world = World(peer_factory=cfg.peer_factory)
    pool = build_pool(world, pool_cfg, sync=case["sync"])
    res = {"got": 0, "small": None, "exc": None}
    from ..drivers import HarnessHang, exc_info

    def hang(exc):
        return {"type": "HANG", "name": "HANG", "msg": str(exc) or "blocked for ever"}

    if case["sync"]:
        try:
            with pool.stream("GET", "https://a.test/t/big") as resp:
                r2 = pool.request("GET", "https://a.test/t/small")
                res["small"] = r2.status
                for part in resp.iter_stream():
                    res["got"] += len(part)
        except HarnessHang as exc:
            res["exc"] = hang(exc)
        except BaseException as exc:
            res["exc"] = exc_info(exc)
        pool.close()
    else:
        async def go():
            import asyncio

            try:
                async with pool.stream("GET", "https://a.test/t/big") as resp:
                    r2 = await pool.request("GET", "https://a.test/t/small")
                    res["small"] = r2.status
                    async for part in resp.aiter_stream():
                        res["got"] += len(part)
            except HarnessHang as exc:
                res["exc"] = hang(exc)
            except asyncio.CancelledError as exc:
                res["exc"] = hang(exc)
            except BaseException as exc:
                res["exc"] = exc_info(exc)
            await pool.aclose()

        run_async(go())
    vio = []
    base = dict(layer="inline", what="held-download")
    desc = f"[{'sync' if case['sync'] else 'async'}] a {size}-byte response held unread while another request reads from the connection, then read"
    if res["exc"] is not None:
        kind = "download-stalled" if res["exc"]["type"] == "HANG" else "transfer-failed"
        vio.append(V(P, kind, f"{desc}: after {res['got']} bytes: {res['exc']['type']}: {res['exc'].get('msg', '')[:160]}", **base))
    elif res["got"] != size:
        vio.append(V(P, "download-corrupted", f"{desc}: {res['got']} bytes arrived", **base))
    return Outcome(vio, ["download", "held-download"], True, info={"small": res["small"], "got": res["got"]}, metrics={"bytes_downloaded": res["got"]})


def execute_inline(case) -> Outcome:
    vio = []
    base = dict(layer="inline", what=case["what"])
    if case["what"] == "upload":
        sc = {"settings": case["settings"], "wu_mode": case["wu_mode"], "wu_inc": case["wu_inc"], "script": []}
        pool_cfg, cfg, scheme = topo("direct-h2", h2=h2_cfg(sc))
        world = World(peer_factory=cfg.peer_factory)
        pool = build_pool(world, pool_cfg, sync=case["sync"])
        body = upload_body("x0", case["size"])
        spec = {"method": "POST", "url": "https://a.test/t/x0", "content": {"chunks": chunked(body, case["chunks"])}}
        if case["sync"]:
            out = sync_request(pool, spec)
            pool.close()
        else:
            async def go():
                o = await async_request(pool, spec)
                await pool.aclose()
                return o

            out = run_async(go())
        desc = f"[{'sync' if case['sync'] else 'async'}] upload of {case['size']} bytes, settings {case['settings']}, wu {case['wu_mode']}/{case['wu_inc']}"
        vio += judge_peers(world, {"x0": body}, base, desc)
        if out["exc"] is not None:
            kind = "upload-starved" if out["exc"]["type"] == "HANG" else "transfer-failed"
            vio.append(V(P, kind, f"{desc}: {out['exc']['type']}: {out['exc']['msg']}", **base))
        tags = ["upload", "wu-" + case["wu_mode"]]
        nontrivial = case["size"] > (case["settings"].get("4", W))
        return Outcome(vio[:4], tags, nontrivial, info={"ops": len(world.trace)}, metrics={"bytes_uploaded": case["size"]})
    if case["what"] == "held-download":
        return execute_held_download(case)
    plans = {f"g{i}": {"body_len": n, "h2_frames": [case["frame"]], "h2_pad": case.get("pad", 0)} for i, n in enumerate(case["sizes"])}
    pool_cfg, cfg, scheme = topo("direct-h2", plans=plans)
    world = World(peer_factory=cfg.peer_factory)
    pool = build_pool(world, pool_cfg, sync=case["sync"])
    outs = []
    if case["sync"]:
        for i in range(len(case["sizes"])):
            outs.append(sync_request(pool, {"method": "GET", "url": f"https://a.test/t/g{i}"}))
        pool.close()
    else:
        async def go():
            for i in range(len(case["sizes"])):
                outs.append(await async_request(pool, {"method": "GET", "url": f"https://a.test/t/g{i}"}))
            await pool.aclose()

        run_async(go())
    sizes_txt = str(case["sizes"]) if len(case["sizes"]) <= 6 else f"{len(case['sizes'])} x {case['sizes'][0]}"
    desc = (f"[{'sync' if case['sync'] else 'async'}] downloads of {sizes_txt} bytes on one connection"
            + (f" in DATA frames of {case['frame']} octets + {case['pad']} padding octets" if case.get("pad") else ""))
    for i, out in enumerate(outs):
        if out["exc"] is not None:
            kind = "download-stalled" if out["exc"]["type"] == "HANG" else "transfer-failed"
            vio.append(V(P, kind, f"{desc}: response {i}: {out['exc']['type']}: {out['exc']['msg']} (the peer only sends what the client has granted credit for)", **base))
        elif len(out["body"]) != case["sizes"][i] or out["body"] != response_body(norm_plan(plans[f'g{i}']), f"g{i}", b"GET"):
            vio.append(V(P, "download-corrupted", f"{desc}: response {i} arrived as {len(out['body'])} bytes", **base))
    del outs
    return Outcome(vio[:4], ["download", f"responses={len(case['sizes'])}"], True, info={"ops": len(world.trace)},
                   metrics={"bytes_downloaded": sum(case["sizes"])})


RULE = ("uploads layer: 1-3 concurrent uploads (0..4 x 65,535 bytes around the window boundaries, as bytes or iterator chunkings incl. empty chunks and chunks "
        "larger than a frame) plus optionally a download, on one HTTP/2 connection (ALPN / prior knowledge / tunnel); peer INITIAL_WINDOW_SIZE in {default, "
        "0, 1, 100, 16384, 65535, 2^20}, MAX_FRAME_SIZE in {default, 16384, 16385, 65536, 2^20}, WINDOW_UPDATE policy in {immediate, tiny increments, "
        "stream-first, connection-first, lazy}, optional SETTINGS(INITIAL_WINDOW_SIZE) change at the n-th DATA frame; frame emission, delivery and read "
        "completion order are scheduler choices. inline layer (enumerated): single uploads x policy x window/frame settings, sync and async; downloads of "
        "2^24+65,535 -1/+0/+1, 17 MiB (thorough: 40 MiB, 2x credit) and several multi-MiB responses on one connection. Non-trivial: upload larger than "
        "the initial window with >= 2 WINDOW_UPDATEs, a window setting changed mid-transfer, >= 2 uploads sharing the connection window, or a download "
        "beyond the client's initial credit; distinct = distinct case.")

PROP = Prop(
    P, level="exploration", rule=RULE,
    layers=[
        Layer("uploads", stall_is_violation=True, strategy=upload_scenarios, execute=execute_uploads, budget={"quick": 2000, "thorough": 60000}),
        Layer("inline", stall_is_violation=True, cases=inline_cases, execute=execute_inline),
    ],
    assumptions=["the peer's own window / frame-size accounting (vf/peers/h2.py) is the reference; increases of INITIAL_WINDOW_SIZE are applied when sent, decreases "
                 "when ACKed (lenient in the client's favour)",
                 "the peer always returns all credit eventually and never sends DATA beyond the credit the client granted",
                 "starvation is decided at quiescence in the closed simulated world"],
    explanation="Sampled schedules and size combinations; the inline layer enumerates a fixed grid.",
)
