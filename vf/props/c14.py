"""C14 - a request is put on the wire at most once unless the server refused it (fault enumeration).

Enumerated: HTTP/1.1 and HTTP/2 base scenarios (1-3 concurrent requests, retries 0/2) x every fault-eligible network op x documented
fault kind, plus HTTP/2 peer actions at every frame-level event of the base run: RST_STREAM on the newest stream, GOAWAY with
last-stream-id in {0, below, equal, above} (with and without closing the connection). Random layer: drawn combinations and schedules.
Oracle, from the peers' parsers over ALL pipes: the bytes of one call's request appear on at most one connection - two only when a GOAWAY
named a last-stream-id below the stream that carried the first transmission, and then the call succeeds through the second; no new stream
is opened on a connection after the client processed its GOAWAY; a failure after a request byte was written reaches the caller.
"""
from __future__ import annotations

from hypothesis import strategies as st

from ..common import Outcome, V
from ..prop import Layer, Prop
from ..topo import is_h2
from . import c05

P = "C14"
KINDS = ["direct-h1", "direct-tls-h1", "forward", "tunnel-h1", "direct-h2", "prior-h2", "tunnel-h2", "socks-auth-tls-h2"]
H2_KINDS = [k for k in KINDS if is_h2(k)]
CONTEXTS = ["alone", "sibling", "sibling2"]
SHAPES = ["get", "post2"]
GOAWAYS = ["zero", "below", "equal", "above"]


def transmissions(world, tok):
    """Pipes on which bytes of the request with this token were written -> list of (pipe id, sid or None, refused)."""
    res = []
    needle1 = b"/t/" + tok.encode() + b" "
    needle2 = b": " + tok.encode() + b"\r\n"
    for p in world.pipes:
        leaf = p.peer.leaf()
        h2 = getattr(leaf, "h2", None)
        if h2 is not None:
            for ex in h2.exchanges:
                if ex["token"] == tok:
                    res.append((p.id, ex["sid"], bool(ex.get("refused")), ex))
        else:
            w = bytes(p.written)
            if needle1 in w or needle2 in w:
                ex = next((e for e in leaf.all_exchanges() if e["token"] == tok), None)
                res.append((p.id, None, False, ex))
    return res


def judge(case, run, world, callers):
    vio = []
    kind = case["kind"]
    what = (f"{kind}/{case['context']}/{case['shape']} retries={case.get('retries', 0)} faults={case.get('faults')} h2={case.get('h2', {}).get('script')}"
            + (" schedule=reads-first" if case.get("policy") else ""))
    base = dict(conn=kind.split("-")[0] + ("-h2" if is_h2(kind) else "-h1"))
    goaway = None
    for p in world.pipes:
        h2 = getattr(p.peer.leaf(), "h2", None)
        if h2 is not None:
            if h2.goaway_sent is not None:
                goaway = h2.goaway_sent
                base["goaway"] = "zero" if goaway["last"] == 0 else "nonzero"
            for k, msg in h2.violations:
                if k == "new-stream-after-goaway":
                    vio.append(V(P, "new-stream-after-goaway", f"{what}: {msg}", **base))
    if world.fired_faults:
        base["trigger"] = "fault-" + world.fired_faults[0]["fault"]
    any_refused = False
    after_write = False
    for c in callers:
        for i, step in enumerate(c.program):
            tok = step["tok"]
            tx = transmissions(world, tok)
            out = c.results[i] if i < len(c.results) else None
            if tx:
                after_write = True
            refused_first = len(tx) >= 1 and tx[0][2]
            if refused_first:
                any_refused = True
            if len(tx) > 2 or (len(tx) == 2 and not refused_first):
                vio.append(V(P, "resent", f"{what}: the request {tok} of caller {c.id} was written to {len(tx)} connections (pipes {[t[0] for t in tx]}) "
                             f"although no GOAWAY refused its first transmission; outcome {out and (out.get('status') or out['exc']['name'])}", **base))
            if refused_first and out is not None and not world.fired_faults:
                # (with an injected network fault in the same run the re-sent request may legitimately fail)
                second_disturbed = False
                if len(tx) == 2:
                    # the re-sent transmission has its own connection with its own server behaviour (the script fires per connection): if THAT
                    # server reset or refused it too, a failure of the call says nothing about the re-send
                    h2b = getattr(world.pipes[tx[1][0]].peer.leaf(), "h2", None)
                    ex2 = h2b.streams.get(tx[1][1], {}).get("ex", {}) if h2b is not None else {}
                    second_disturbed = bool(tx[1][2] or ex2.get("rst_by_server") or ex2.get("refused") or (h2b is not None and h2b.goaway_sent is not None))
                if len(tx) == 1 or (out["exc"] is not None and not second_disturbed):
                    # the GOAWAY that refused THIS transmission (other connections of the run - e.g. the probe's - may have seen their own)
                    g_own = getattr(world.pipes[tx[0][0]].peer.leaf(), "h2", None)
                    goaway = g_own.goaway_sent if g_own is not None and g_own.goaway_sent is not None else goaway
                    base = dict(base, goaway="zero" if goaway and goaway["last"] == 0 else "nonzero")
                    vio.append(V(P, "refused-not-resent", f"{what}: GOAWAY(last_stream_id={goaway and goaway['last']}) refused stream {tx[0][1]} carrying {tok} - the "
                                 f"server provably did not process it - but the call was not transparently re-sent: {len(tx)} transmission(s), outcome "
                                 f"{out['exc']['type'] if out['exc'] else out.get('status')}" + (f" raised in {out['exc'].get('inner')}" if out["exc"] else ""),
                                 site=(out["exc"] or {}).get("inner"),
                                 # was the refused transmission still uploading (request body not complete on the wire) when the call failed? Only
                                 # then can "the refusal was noticed by the writer" (F-C14-refusal-noticed-by-writer-not-resent) be the reason
                                 upload_incomplete=bool(step["spec"].get("content") is not None and not (tx[0][3] or {}).get("complete")), **base))
            if out is not None and out["exc"] is None and tx:
                # success: the response must come from a transmission that completed
                if not any(t[3] is not None and t[3].get("complete") for t in tx):
                    vio.append(V(P, "success-without-complete-transmission", f"{what}: {tok} succeeded but no complete request reached a server", **base))
            if out is not None and out["exc"] is None and not tx:
                vio.append(V(P, "phantom-success", f"{what}: {tok} succeeded although no byte of it was seen on any connection", **base))
    # (a deadlock is C07 / C12 territory and is not judged here)
    return vio, after_write, any_refused


def run(case):
    return c05.run_case(case)


def execute(case) -> Outcome:
    r, world, callers = run(case)
    vio, after_write, any_refused = judge(case, r, world, callers)
    tags = [case["kind"], "ctx-" + case["context"], "shape-" + case["shape"], f"retries={case.get('retries', 0)}"]
    for f in world.fired_faults:
        tags.append("fault-" + f["kind"])
    script = (case.get("h2") or {}).get("script") or []
    for item in script:
        for act in item["do"]:
            tags.append("h2-" + next(iter(act)))
            if "goaway" in act:
                tags.append("goaway-" + str(act["goaway"].get("last")))
    if any_refused:
        tags.append("stream-refused-by-goaway")
    fired = bool(world.fired_faults) or any(getattr(p.peer.leaf(), "h2", None) is not None and (p.peer.leaf().h2.goaway_sent or any(e.get("rst_by_server") for e in p.peer.leaf().h2.exchanges)) for p in world.pipes)
    nontrivial = (fired and after_write) or any_refused
    return Outcome(vio[:5], tags, nontrivial, info={"outcomes": [[(o.get("status") or o["exc"]["name"]) for o in c.results] for c in callers],
                                                   "pipes": len(world.pipes)})


_EV_CACHE = {}


def h2_events(kind, ctx, shape):
    key = (kind, ctx, shape)
    if key not in _EV_CACHE:
        r, world, callers = run({"kind": kind, "context": ctx, "shape": shape})
        counts = {}
        for p in world.pipes:
            h2 = getattr(p.peer.leaf(), "h2", None)
            if h2 is not None:
                for ev in ("headers", "data", "request_complete", "response_sent"):
                    counts[ev] = max(counts.get(ev, 0), h2.counters.get(ev, 0))
        _EV_CACHE[key] = counts
    return _EV_CACHE[key]


def enum_cases(tier):
    cases = []
    for kind in KINDS:
        for ctx in CONTEXTS + (["reader-first", "held-sibling"] if is_h2(kind) else []):
            for shape in SHAPES:
                elig, _ = c05.base_counts(kind, ctx, shape)
                for retries in (0, 2):
                    for idx, opkind in elig:
                        for fault in c05.FAULTS[opkind]:
                            if tier == "quick" and retries == 2 and opkind in ("read", "write") and fault.endswith("Timeout"):
                                continue
                            cases.append({"kind": kind, "context": ctx, "shape": shape, "retries": retries, "faults": [{"at": idx, "fault": fault}]})
                if is_h2(kind):
                    for ev, n in sorted(h2_events(kind, ctx, shape).items()):
                        for k in range(n):
                            # RST_STREAM with CANCEL (the default), REFUSED_STREAM, NO_ERROR and INTERNAL_ERROR: whatever the code says, the
                            # property allows a re-send only for the two listed cases - a reset stream is reported to the caller
                            acts = [{"rst": {"sid": "last"}}, {"rst": {"sid": "last", "code": 7}}, {"rst": {"sid": "last", "code": 0}}, {"rst": {"sid": "last", "code": 2}}]
                            for last in GOAWAYS:
                                acts.append({"goaway": {"last": last}})
                                acts.append({"goaway": {"last": last, "close": True}})
                            for act in acts:
                                cases.append({"kind": kind, "context": ctx, "shape": shape, "retries": 0,
                                              "h2": {"script": [{"when": {"event": ev, "n": k}, "do": [act]}]}})
                                if shape == "post2" and ev in ("headers", "data"):
                                    # the same action, seen by the client as early as possible: what the server says is delivered and read
                                    # before the upload's next write (the fair schedule finishes all writes first)
                                    cases.append({"kind": kind, "context": ctx, "shape": shape, "retries": 0, "policy": "reads-first",
                                                  "h2": {"script": [{"when": {"event": ev, "n": k}, "do": [act]}]}})
    return cases


@st.composite
def random_cases(draw):
    kind = draw(st.sampled_from(KINDS))
    case = {"kind": kind, "context": draw(st.sampled_from(CONTEXTS)), "shape": draw(st.sampled_from(c05.SHAPES)),
            "retries": draw(st.sampled_from([0, 0, 1, 3])), "max_connections": draw(st.sampled_from([1, 2, 3])),
            "choices": draw(st.lists(st.integers(0, 9), max_size=40)), "segs": draw(st.lists(st.sampled_from([0, 1, 5, 100]), max_size=3)),
            "faults": []}
    for _ in range(draw(st.integers(0, 2))):
        case["faults"].append({"at": draw(st.integers(0, 40)), "fault": draw(st.sampled_from(["error", "timeout", "eof"]))})
    if is_h2(kind) and draw(st.booleans()):
        script = []
        for _ in range(draw(st.integers(1, 2))):
            act = draw(st.sampled_from([{"rst": {"sid": "last"}}, {"rst": {"sid": "first"}}, {"rst": {"sid": "last", "code": 7}}, {"rst": {"sid": "first", "code": 7}}] + [{"goaway": {"last": g}} for g in GOAWAYS] +
                                       [{"goaway": {"last": g, "close": True}} for g in GOAWAYS] + [{"ping": True}, {"settings": {"3": 100}}]))
            script.append({"when": {"event": draw(st.sampled_from(["headers", "data", "request_complete", "response_sent", "settings_ack"])),
                                    "n": draw(st.integers(0, 3))}, "do": [act]})
        case["h2"] = {"script": script}
    return case


RULE = ("enumerated layer: connection kind (h1: direct plain/TLS, forward, tunnel; h2: ALPN, prior knowledge, tunnel, SOCKS+TLS) x context (alone, a sibling "
        "request on the same origin, two siblings incl. another origin) x shape (GET, POST with 2-chunk body) x retries {0,2} x EVERY fault-eligible "
        "network op x documented fault kind; for HTTP/2 additionally at EVERY occurrence of the peer events request-HEADERS / DATA / request complete / "
        "response sent: RST_STREAM of the newest stream, GOAWAY with last-stream-id 0 / below / equal / above the newest stream, with and without closing "
        "the connection. random layer: drawn kind/context/shape/retries/limits, 0-2 faults, 0-2 scripted peer actions incl. PING and SETTINGS, drawn "
        "schedule. Non-trivial: the fault or peer action fired after the first request byte was written, or a GOAWAY refused an in-flight stream; "
        "distinct = distinct case.")

PROP = Prop(
    P, level="fault_enumeration", rule=RULE,
    layers=[
        Layer("enumerated", cases=enum_cases, execute=execute),
        Layer("random", strategy=random_cases, execute=execute, budget={"quick": 800, "thorough": 60000}),
    ],
    assumptions=["a transmission of a call = its token seen on a pipe (HTTP/1.1: in the written bytes; HTTP/2: HPACK-decoded by the peer)",
                 "'the client processed GOAWAY' = the caller that read the GOAWAY bytes issued a later network op or is the one writing now",
                 "after GOAWAY the peer ignores frames on refused streams and keeps answering the others (RFC 7540 6.8)",
                 "'earlier streams may finish' is read as a permission, not an obligation: on the pinned tree a stream at or below last-stream-id whose "
                 "response has not arrived when the GOAWAY is read fails with RemoteProtocolError(ConnectionTerminated) (httpcore ends all streams; the h2 "
                 "library rejects every frame after GOAWAY anyway) - observed, tagged, not judged"],
    explanation="The enumerated layer is exhaustive over fault positions x kinds and over peer-action positions for the listed base scenarios.",
)
