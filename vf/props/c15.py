"""C15 - only documented exception types reach the caller (fuzzing).

Target: pool.request() through a pool on SimNet against a *replay peer* that sends a scripted byte stream whatever the client
writes (vf/peers/replay.py). Generators: (1) structure-aware Hypothesis grammars with injected defects for HTTP/1.1 responses,
HTTP/2 frames of any type / flags / length / stream id with valid, random or HPACK-defective payloads, SOCKS5 replies and CONNECT
replies; (2) mutations of valid conversations recorded from the well-behaved peer models; (3) (thorough tier) Atheris coverage-guided
fuzzing of the same target (fuzz/c15_fuzz.py). Plus: every documented backend exception injected at every op of base scenarios, and
caller-invalid requests.
Oracle: the outcome is a response or a documented httpcore exception whose class matches the cause (peer data -> RemoteProtocolError,
or ProxyError at a proxy / SOCKS stage; injected fault X -> X; invalid request -> LocalProtocolError); never a library / runtime /
bare builtin exception; the call terminates once the input has ended.
"""
from __future__ import annotations

import struct

import hpack
from hypothesis import strategies as st

from ..common import Outcome, V
from ..drivers import async_request, build_pool, run_async, sync_request
from ..peers.replay import ReplayPeer
from ..prop import Layer, Prop
from ..simnet import World
from ..topo import topo

P = "C15"

# ----------------------------------------------------------------------------- the fuzz target (shared with fuzz/c15_fuzz.py)

STAGES = ("h1", "h2-alpn", "h2-prior", "socks", "socks-auth", "connect", "forward")


def target(stage: str, rounds, seg=None, sync=True, method="GET", body=None, read_mode="request", read=None):
    """Run one request against the replayed rounds. Returns (outcome dict, world)."""
    routes = {}
    pool_cfg = {}
    url = "http://a.test/x"
    if stage == "h2-alpn":
        pool_cfg = {"http2": True}
        url = "https://a.test/x"
    elif stage == "h2-prior":
        pool_cfg = {"http2": True, "http1": False}
    elif stage == "socks":
        pool_cfg = {"proxy": {"url": "socks5://socks.test:1080"}}
    elif stage == "socks-auth":
        pool_cfg = {"proxy": {"url": "socks5://socks.test:1080", "auth": ["u", "p"]}}
    elif stage == "connect":
        pool_cfg = {"proxy": {"url": "http://proxy.test:3128"}}
        url = "https://a.test/x"
    elif stage == "forward":
        pool_cfg = {"proxy": {"url": "http://proxy.test:3128"}}

    def factory(world, pipe):
        return ReplayPeer(world, pipe, rounds, tls_alpn="h2" if stage == "h2-alpn" else "http/1.1")

    world = World(peer_factory=factory, seg=seg)
    world.seg_everything = True
    pool = build_pool(world, pool_cfg, sync=sync)
    spec = {"method": method, "url": url, "api": read_mode}
    if read is not None:
        # a caller that streams the response and lets go of it early (after `read` parts): whatever close() does with the rest must not raise
        # anything but a documented exception either
        spec.update(api="stream", read=read)
    if body is not None:
        spec["content"] = body
    if sync:
        out = sync_request(pool, spec)
        try:
            pool.close()
        except BaseException as exc:  # closing must not raise either
            out = {"exc": {"type": f"{type(exc).__module__}.{type(exc).__qualname__}", "name": type(exc).__name__, "documented": False,
                           "msg": "pool.close() raised: " + str(exc)[:200], "inner": "close", "base": isinstance(exc, Exception)}}
    else:
        async def go():
            o = await async_request(pool, spec)
            await pool.aclose()
            return o

        out = run_async(go())
    out.pop("network_stream", None)
    return out, world


def allowed_for(stage, out):
    """-> None if the outcome is acceptable for malformed / arbitrary PEER DATA, else (kind, detail)."""
    exc = out["exc"]
    if exc is None:
        return None
    if exc["type"] == "HANG":
        return ("hang", "the call does not terminate although the peer's input has ended")
    name = exc["name"]
    if not exc["documented"]:
        return ("undocumented-exception", f"{exc['type']}")
    ok = {"RemoteProtocolError"}
    if stage in ("socks", "socks-auth", "connect"):
        ok.add("ProxyError")
    if stage == "connect":
        ok.add("ConnectError")  # the TLS handshake inside the tunnel fails when the peer has gone away
    if name in ok:
        return None
    return ("wrong-class", f"{exc['type']} for malformed peer data (expected RemoteProtocolError{' or ProxyError' if 'ProxyError' in ok else ''})")


def judge(stage, out, what):
    bad = allowed_for(stage, out)
    if bad is None:
        return []
    kind, detail = bad
    exc = out["exc"]
    return [V(P, kind, f"{what}: {detail}: {exc['msg'][:200]} (raised in {exc.get('inner')})", stage=stage.split('-')[0], exc=exc["type"], site=exc.get("inner"))]


def units_consumed(world):
    """How far the parser got: bytes delivered to the client."""
    return sum(p.delivered for p in world.pipes)


# ----------------------------------------------------------------------------- (1a) HTTP/1.1 response grammar with defects

GOOD_LINES = [b"Content-Length: 5", b"Content-Type: text/plain", b"X-A: b", b"Transfer-Encoding: chunked", b"Connection: close",
              b"Connection: keep-alive", b"Content-Length: 0", b"Server: sim"]
BAD_LINES = [b"NoColonHere", b"X-Nul: a\x00b", b": empty-name", b"X Space: v", b" leading-space: v", b"Content-Length: -1", b"Content-Length: 5, 6",
             b"Content-Length: 99999999999999999999999", b"Content-Length: 0x10", b"Content-Length: five", b"Transfer-Encoding: gzip",
             b"Transfer-Encoding: chunked, gzip", b"X-CR: a\rb", b"X-Long: " + b"a" * 70000, b"\xff\xfe: bin", b"X-Bin: \xff\xfe\x00", b"\tfolded",
             b"Content-Length: 5\r\nContent-Length: 6", b"Upgrade: h2c", b"Content-Length: ", b"X-" + b"n" * 300 + b": v"]
STATUS_LINES = [b"HTTP/1.1 200 OK", b"HTTP/1.0 200 OK", b"HTTP/1.1 204 No Content", b"HTTP/1.1 304 NM", b"HTTP/1.1 100 Continue", b"HTTP/1.1 101 Switching",
                b"HTTP/1.1 404", b"HTTP/1.1 200 ", b"HTTP/1.1 999 X", b"HTTP/1.1 099 X", b"HTTP/1.1 20 OK", b"HTTP/1.1 2000 OK", b"HTTP/1.1 abc OK", b"HTTP/2.0 200 OK",
                b"HTTP/1.1  200 OK", b"HTTX/1.1 200 OK", b"HTTP/1.1200 OK", b"200 OK", b"", b"HTTP/1.1 -1 X", b"HTTP/1.1 200 OK\x00", b"\x16\x03\x01\x02\x00\x01",
                b"PRI * HTTP/2.0", b"HTTP/1.1 200 " + b"R" * 70000, b"HTTP/9.9 200 OK", b"http/1.1 200 ok", b"HTTP/1.1\t200\tOK"]
BODIES = [b"", b"hello", b"hell", b"hello world", b"5\r\nhello\r\n0\r\n\r\n", b"5\r\nhello\r\n", b"zz\r\nhello\r\n0\r\n\r\n", b"-5\r\nhello\r\n0\r\n\r\n",
          b"5\r\nhelloXX0\r\n\r\n", b"FFFFFFFFFFFFFFFFF\r\nhello", b"5;ext=1\r\nhello\r\n0\r\nTrailer: x\r\n\r\n", b"5\nhello\n0\n\n", b"0\r\n\r\nHTTP/1.1 200 OK\r\n\r\n",
          b"5\r\nhello\r\n0\r\nBad Trailer\r\n\r\n", b"\x00" * 10, b"1\r\na\r\n" * 50 + b"0\r\n\r\n", b"5 \r\nhello\r\n0\r\n\r\n", b"000000000005\r\nhello\r\n0\r\n\r\n"]
EOLS = [b"\r\n", b"\r\n", b"\r\n", b"\n", b"\r", b"\r\r\n", b"\n\r"]


@st.composite
def h1_cases(draw):
    if draw(st.integers(0, 3)) == 0:
        # a well-formed head followed by a chunked body whose defect comes AFTER the first good chunk (all in one delivery): the interesting callers
        # are the ones that stop reading early
        lines = [b"HTTP/1.1 200 OK", b"Transfer-Encoding: chunked"] + draw(st.lists(st.sampled_from([b"X-A: b", b"Server: sim", b"Content-Type: text/plain"]), max_size=2))
        body = b"5\r\nhello\r\n" + draw(st.sampled_from([b"ZZZ\r\nxx\r\n0\r\n\r\n", b"5\r\nworldXX0\r\n\r\n", b"-1\r\n\r\n", b"5\r\nwor", b"0\r\nBad Trailer\r\n\r\n",
                                                          b"FFFFFFFFFFFFFFFFFFFF\r\nx", b"5 5\r\nworld\r\n0\r\n\r\n", b"\r\n\r\n", b"0\r\n\r\n" + b"junk after the message"]))
        return {"stage": draw(st.sampled_from(["h1", "forward"])), "rounds": [b"", b"\r\n".join(lines) + b"\r\n\r\n" + body], "seg": draw(st.sampled_from([None, None, None, [200]])),
                "method": draw(st.sampled_from(["GET", "POST"])), "sync": draw(st.booleans()), "read": draw(st.sampled_from([None, 0, 0, 1, 1, 2]))}
    n_resp = draw(st.integers(1, 2))
    wire = b""
    for _ in range(n_resp):
        eol = draw(st.sampled_from(EOLS))
        lines = [draw(st.sampled_from(STATUS_LINES))]
        for _ in range(draw(st.integers(0, 4))):
            lines.append(draw(st.sampled_from(GOOD_LINES + GOOD_LINES + BAD_LINES)))
        head = eol.join(lines) + eol + draw(st.sampled_from([eol, eol, eol, b"", b"\r\n\r\n"]))
        wire += head + draw(st.sampled_from(BODIES))
    if draw(st.integers(0, 5)) == 0:
        wire = draw(st.binary(max_size=60)) + wire
    if draw(st.integers(0, 4)) == 0 and wire:
        cut = draw(st.integers(0, len(wire)))
        wire = wire[:cut]
    return {"stage": draw(st.sampled_from(["h1", "h1", "forward"])), "rounds": [b"", wire], "seg": draw(st.sampled_from([None, None, [1], [3, 50], [7]])),
            "method": draw(st.sampled_from(["GET", "GET", "HEAD", "POST"])), "sync": draw(st.booleans()), "read": draw(st.sampled_from([None, None, None, 0, 1]))}


# ----------------------------------------------------------------------------- (1b) HTTP/2 frames of any type

def raw_frame(ftype, flags, sid, payload, declared=None):
    n = len(payload) if declared is None else declared
    return struct.pack(">I", n & 0xFFFFFF)[1:] + bytes([ftype & 0xFF, flags & 0xFF]) + struct.pack(">I", sid & 0xFFFFFFFF) + payload


def hpack_block(headers, huffman=True):
    enc = hpack.Encoder()
    return enc.encode(headers, huffman=huffman)


HDR_SETS = [
    [(b":status", b"200")], [(b":status", b"200"), (b"content-length", b"5")], [(b":status", b"abc")], [(b":status", b"")], [(b"x-a", b"b")],
    [(b":status", b"200"), (b":status", b"404")], [(b":status", b"200"), (b":path", b"/")], [(b":status", b"99999999999")], [(b":status", b"2 0")],
    [(b":status", b"\xff\xfe")], [(b":status", b"100")], [(b":status", b"101")], [(b":status", b"200"), (b"Upper", b"x")], [(b":status", b"200"), (b"", b"x")],
    [(b":status", b"200"), (b"connection", b"close")], [(b":status", b"200"), (b"x" * 5000, b"y" * 5000)], [(b":status", b"204")], [(b":status", b"-1")],
    [(b":status", b"200"), (b"content-length", b"abc")], [(b":status", b"+200")], [(b":status", b"2" * 40)], [(b":method", b"GET")],
]
BAD_HPACK = [b"\xff\xff\xff\xff\xff\xff\xff\xff\xff\xff", b"\xbe", b"\x40", b"\x40\x0a", b"\x00\x85\xff\xff\xff\xff\xff", b"\x3f\xff\xff\xff\xff\x0f", b"\x88\x88\x88",
             b"\x7f\xff\xff\xff\xff\x7f", b"\x00\x01a", b"\x10\x7f\xff\xff\xff\xff\xff\xff", b"\x80", b"\x20", b"\x3f\xe1\xff\xff\xff\xff\x07"]
SETTINGS_PAYLOADS = [b"", struct.pack(">HI", 3, 100), struct.pack(">HI", 4, 0x7FFFFFFF), struct.pack(">HI", 4, 0x80000000), struct.pack(">HI", 5, 1), struct.pack(">HI", 5, 1 << 24),
                     struct.pack(">HI", 2, 2), struct.pack(">HI", 1, 0), struct.pack(">HI", 0x99, 5), b"\x00\x03\x00", struct.pack(">HI", 3, 0), struct.pack(">HI", 6, 0),
                     struct.pack(">HI", 4, 0) + struct.pack(">HI", 4, 65535), struct.pack(">HI", 8, 1)]


@st.composite
def h2_frames(draw):
    kind = draw(st.integers(0, 19))
    sid = draw(st.sampled_from([0, 1, 1, 1, 3, 2, 5, 0x7FFFFFFF, 0x80000001]))
    flags = draw(st.sampled_from([0, 1, 4, 5, 8, 0x20, 0x0D, 0x25, 0xFF]))
    if kind <= 3:  # HEADERS
        block = hpack_block(draw(st.sampled_from(HDR_SETS)), huffman=draw(st.booleans())) if draw(st.integers(0, 3)) else draw(st.sampled_from(BAD_HPACK))
        if flags & 0x08:
            block = bytes([draw(st.sampled_from([0, 1, 200]))]) + block
        if flags & 0x20:
            block = struct.pack(">IB", draw(st.sampled_from([0, 1, 0x80000001])), 5) + block
        return raw_frame(1, flags, sid, block)
    if kind <= 6:  # DATA
        data = draw(st.sampled_from([b"", b"hello", b"x" * 100, b"\x05pad", b"y" * 20000]))
        return raw_frame(0, flags, sid, data)
    if kind == 7:
        return raw_frame(4, draw(st.sampled_from([0, 0, 1])), draw(st.sampled_from([0, 0, 1])), draw(st.sampled_from(SETTINGS_PAYLOADS)))
    if kind == 8:
        return raw_frame(8, 0, sid, draw(st.sampled_from([struct.pack(">I", 1000), struct.pack(">I", 0), struct.pack(">I", 0x7FFFFFFF), b"\x00", struct.pack(">I", 0x80000005)])))
    if kind == 9:
        return raw_frame(3, 0, sid, draw(st.sampled_from([struct.pack(">I", 8), struct.pack(">I", 0), b"", struct.pack(">I", 0xFFFFFFFF), b"\x00" * 5])))
    if kind == 10:
        return raw_frame(7, 0, draw(st.sampled_from([0, 0, 1])), draw(st.sampled_from([struct.pack(">II", 0, 0), struct.pack(">II", 1, 2), struct.pack(">II", 0x7FFFFFFF, 0) + b"debug", b"\x00" * 4, b""])))
    if kind == 11:
        return raw_frame(6, draw(st.sampled_from([0, 1])), draw(st.sampled_from([0, 0, 1])), draw(st.sampled_from([b"12345678", b"1234", b""])))
    if kind == 12:
        return raw_frame(5, flags, sid, draw(st.sampled_from([struct.pack(">I", 2) + hpack_block([(b":method", b"GET"), (b":path", b"/"), (b":scheme", b"https"), (b":authority", b"a")]), b"\x00", b""])))
    if kind == 13:
        return raw_frame(9, flags, sid, draw(st.sampled_from([hpack_block([(b"x-c", b"1")]), b"", b"\xff" * 5])))
    if kind == 14:
        return raw_frame(2, 0, sid, draw(st.sampled_from([struct.pack(">IB", 0, 1), struct.pack(">IB", 1, 1), b"\x00", b"\x00" * 6])))
    if kind == 15:
        return raw_frame(draw(st.integers(10, 255)), flags, sid, draw(st.binary(max_size=20)))
    if kind == 16:  # lying length
        return raw_frame(draw(st.sampled_from([0, 1, 4])), flags, sid, draw(st.binary(max_size=12)), declared=draw(st.sampled_from([0, 5, 100, 16385, 0xFFFFFF])))
    if kind == 17:
        return draw(st.binary(min_size=1, max_size=30))
    if kind == 18:  # a well-formed little response
        return (raw_frame(1, 4, 1, hpack_block([(b":status", b"200")])) + raw_frame(0, 1, 1, b"ok"))
    return raw_frame(4, 0, 0, b"")


@st.composite
def h2_cases(draw):
    frames = draw(st.lists(h2_frames(), min_size=1, max_size=7))
    pre = draw(st.sampled_from([raw_frame(4, 0, 0, b""), raw_frame(4, 0, 0, struct.pack(">HI", 3, 100)), b"", raw_frame(4, 0, 0, b"") + raw_frame(4, 1, 0, b"")]))
    rounds = [pre, b"".join(frames)] if draw(st.booleans()) else [pre + b"".join(frames)]
    if draw(st.integers(0, 3)) == 0:
        rounds.append(b"".join(draw(st.lists(h2_frames(), min_size=1, max_size=3))))
    return {"stage": draw(st.sampled_from(["h2-alpn", "h2-prior"])), "rounds": rounds, "seg": draw(st.sampled_from([None, None, [1], [9], [5, 100]])),
            "method": draw(st.sampled_from(["GET", "GET", "POST"])), "sync": draw(st.booleans()), "read": draw(st.sampled_from([None, None, None, 0, 1]))}


# ----------------------------------------------------------------------------- (1c) SOCKS5 and CONNECT replies

SOCKS_METHOD = [b"\x05\x00", b"\x05\x02", b"\x05\xff", b"\x05\x01", b"\x04\x00", b"\x05", b"", b"\x05\x00\x05", b"\x00\x00", b"\x05\x80", b"HTTP/1.1 400 Bad\r\n\r\n"]
SOCKS_AUTH = [b"\x01\x00", b"\x01\x01", b"\x01", b"\x05\x00", b"", b"\x01\x00\x00", b"\xff\xff"]
SOCKS_REPLY = [b"\x05\x00\x00\x01\x00\x00\x00\x00\x00\x00", b"\x05\x01\x00\x01\x00\x00\x00\x00\x00\x00", b"\x05\x00\x00\x03\x04host\x00\x50", b"\x05\x00\x00\x04" + b"\x00" * 16 + b"\x00\x50",
               b"\x05\x09\x00\x01\x00\x00\x00\x00\x00\x00", b"\x05\xff\x00\x01\x00\x00\x00\x00\x00\x00", b"\x05\x00\x00\x05\x00\x00", b"\x05\x00\x00\x01\x00", b"\x05\x00", b"",
               b"\x04\x5a\x00\x00\x00\x00\x00\x00", b"\x05\x00\x01\x01\x00\x00\x00\x00\x00\x00", b"\x05\x00\x00\x03\xff" + b"h" * 10, b"\x05\x00\x00\x01\x00\x00\x00\x00\x00\x00extra",
               b"\x05\x00\x00\x03\x00\x00\x50", b"\x05\x00\x00\x04\x00\x00\x00\x00\x00\x00"]
HTTP_OK = b"HTTP/1.1 200 OK\r\nContent-Length: 2\r\n\r\nok"


@st.composite
def socks_cases(draw):
    auth = draw(st.booleans())
    # each negotiation step is answered correctly with probability ~0.7 so that the later steps are reached often
    ok_method = b"\x05\x02" if auth else b"\x05\x00"
    rounds = [b"", ok_method if draw(st.integers(0, 9)) < 7 else draw(st.one_of(st.sampled_from(SOCKS_METHOD), st.binary(max_size=6)))]
    if auth:
        rounds.append(b"\x01\x00" if draw(st.integers(0, 9)) < 7 else draw(st.one_of(st.sampled_from(SOCKS_AUTH), st.binary(max_size=4))))
    rounds.append(draw(st.one_of(st.sampled_from(SOCKS_REPLY), st.sampled_from(SOCKS_REPLY), st.binary(max_size=24))))
    rounds.append(draw(st.sampled_from([HTTP_OK, HTTP_OK, b"", b"garbage"])))
    if draw(st.integers(0, 3)) == 0:  # merge two replies into one round (arrive together)
        i = draw(st.integers(1, len(rounds) - 2))
        rounds[i:i + 2] = [rounds[i] + rounds[i + 1]]
    return {"stage": "socks-auth" if auth else "socks", "rounds": rounds, "seg": draw(st.sampled_from([None, None, None, [1], [2, 3]])),
            "method": "GET", "sync": draw(st.booleans())}


CONNECT_REPLIES = [b"HTTP/1.1 200 Connection established\r\n\r\n", b"HTTP/1.1 200 OK\r\nContent-Length: 5\r\n\r\nhello", b"HTTP/1.1 407 Auth\r\nContent-Length: 0\r\n\r\n",
                   b"HTTP/1.1 100 Continue\r\n\r\nHTTP/1.1 200 OK\r\n\r\n", b"HTTP/1.1 101 Switching Protocols\r\n\r\n", b"HTTP/1.0 200 OK\r\n\r\n", b"HTTP/1.1 200\r\n\r\n",
                   b"HTTP/1.1 abc\r\n\r\n", b"", b"\x05\x00", b"HTTP/1.1 200 OK\r\nBad Header\r\n\r\n", b"HTTP/1.1 200 OK\r\nTransfer-Encoding: chunked\r\n\r\n0\r\n\r\n",
                   b"HTTP/1.1 302 Found\r\nLocation: x\r\n\r\n", b"HTTP/1.1 403 Interdit \xe9\xe8\r\n\r\n", b"HTTP/1.1 502 \xff\xfe bad gateway\r\nContent-Length: 0\r\n\r\n",
                   b"HTTP/1.1 407 Auth\r\nProxy-Authenticate: Basic realm=\"caf\xe9\"\r\nContent-Length: 0\r\n\r\n", b"HTTP/1.1 200 " + b"r" * 70000 + b"\r\n\r\n", b"HTTP/1.1 204 No\r\n\r\n", b"HTTP/1.1 299 Odd\r\n\r\n"]


@st.composite
def connect_cases(draw):
    rounds = [b"", draw(st.one_of(st.sampled_from(CONNECT_REPLIES), st.binary(max_size=40)))]
    rounds.append(draw(st.sampled_from([HTTP_OK, HTTP_OK, b"", b"\x15\x03\x01\x00\x02\x02\x28", b"HTTP/1.1 abc\r\n\r\n"])))
    return {"stage": "connect", "rounds": rounds, "seg": draw(st.sampled_from([None, None, [1], [5, 3]])), "method": draw(st.sampled_from(["GET", "POST"])),
            "sync": draw(st.booleans())}


def grammar_cases():
    return st.one_of(h1_cases(), h1_cases(), h2_cases(), h2_cases(), h2_cases(), socks_cases(), connect_cases())


def execute_grammar(case) -> Outcome:
    stage = case["stage"]
    body = b"abc" if case.get("method") == "POST" else None
    out, world = target(stage, case["rounds"], seg=case.get("seg"), sync=case.get("sync", True), method=case.get("method", "GET"), body=body, read=case.get("read"))
    what = f"[{'sync' if case.get('sync', True) else 'async'}] stage {stage}{'' if case.get('read') is None else ', response closed after ' + str(case['read']) + ' part(s)'}, peer bytes {b''.join(case['rounds'])[:120]!r}{'...' if sum(map(len, case['rounds'])) > 120 else ''}"
    vio = judge(stage, out, what)
    consumed = units_consumed(world)
    outcome = "success" if out["exc"] is None else out["exc"]["name"]
    tags = ["stage-" + stage.split("-")[0], "out-" + outcome] + (["closed-early"] if case.get("read") is not None else [])
    nontrivial = consumed >= 9 and not (out["exc"] is None and False)
    return Outcome(vio, tags, nontrivial, key=[stage, case["rounds"], case.get("seg"), case.get("method"), case.get("read")],
                   info={"outcome": outcome, "bytes_consumed": consumed, "site": out["exc"] and out["exc"].get("inner")})



# ----------------------------------------------------------------------------- (1d) several HTTP/2 streams open when the bad input arrives

def siblings_target(stage, rounds, n, order, sync, seg=None):
    """One caller opens n streamed responses on ONE HTTP/2 connection (heads only), then reads the bodies in `order`, then closes everything.
    Returns ([(step, exc_info)], world): every exception any step raised."""
    pool_cfg = {"http2": True} if stage == "h2-alpn" else {"http2": True, "http1": False}
    url = ("https" if stage == "h2-alpn" else "http") + "://a.test/x"

    def factory(world, pipe):
        return ReplayPeer(world, pipe, rounds, tls_alpn="h2")

    world = World(peer_factory=factory, seg=seg)
    world.seg_everything = True
    pool = build_pool(world, pool_cfg, sync=sync)
    from ..drivers import HarnessHang, exc_info

    def note(excs, step, exc):
        if isinstance(exc, HarnessHang) or (isinstance(exc, __import__("asyncio").CancelledError) and exc.args and exc.args[0] == "vf-hang"):
            excs.append((step, {"type": "HANG", "name": "HANG", "documented": False, "msg": str(exc) or "blocked for ever", "inner": None, "base": False}))
        else:
            excs.append((step, exc_info(exc)))

    excs = []
    if sync:
        import contextlib
        resps = []
        with contextlib.ExitStack() as stack:
            for i in range(n):
                try:
                    resps.append(stack.enter_context(pool.stream("GET", f"{url}{i}")))
                except BaseException as exc:
                    note(excs, f"open#{i}", exc)
                    resps.append(None)
            for i in order:
                if resps[i % n] is None:
                    continue
                try:
                    for _ in resps[i % n].iter_stream():
                        pass
                except BaseException as exc:
                    note(excs, f"read#{i % n}", exc)
            for i, r in enumerate(resps):
                if r is not None:
                    try:
                        r.close()
                    except BaseException as exc:
                        note(excs, f"close#{i}", exc)
        try:
            pool.close()
        except BaseException as exc:
            note(excs, "pool.close", exc)
    else:
        async def go():
            import contextlib
            resps = []
            async with contextlib.AsyncExitStack() as stack:
                for i in range(n):
                    try:
                        resps.append(await stack.enter_async_context(pool.stream("GET", f"{url}{i}")))
                    except GeneratorExit:
                        raise
                    except BaseException as exc:
                        note(excs, f"open#{i}", exc)
                        resps.append(None)
                for i in order:
                    if resps[i % n] is None:
                        continue
                    try:
                        async for _ in resps[i % n].aiter_stream():
                            pass
                    except GeneratorExit:
                        raise
                    except BaseException as exc:
                        note(excs, f"read#{i % n}", exc)
                for i, r in enumerate(resps):
                    if r is not None:
                        try:
                            await r.aclose()
                        except GeneratorExit:
                            raise
                        except BaseException as exc:
                            note(excs, f"close#{i}", exc)
            try:
                await pool.aclose()
            except BaseException as exc:
                note(excs, "pool.close", exc)

        run_async(go())
    return excs, world


def _resp_head(sid, end=False, status=b"200"):
    return raw_frame(1, 5 if end else 4, sid, hpack_block([(b":status", status)], huffman=False))


@st.composite
def sibling_cases(draw):
    n = draw(st.integers(2, 3))
    pre = raw_frame(4, 0, 0, struct.pack(">HI", 3, 100))
    heads = [_resp_head(2 * i + 1) for i in range(n)]
    # HPACK: the literal ':status: 200' without indexing is stateless, so the heads can be sent in any grouping
    rounds = [pre]
    if draw(st.booleans()):
        rounds += heads
    else:
        rounds += [heads[0], b"".join(heads[1:])]
    some_data = [raw_frame(0, 0, 2 * i + 1, b"part-") for i in range(n) if draw(st.booleans())]
    bad = draw(st.lists(h2_frames(), min_size=1, max_size=4))
    tail = [raw_frame(0, 1, 2 * i + 1, b"end") for i in range(n) if draw(st.integers(0, 2)) == 0]
    rounds.append(b"".join(some_data) + b"".join(bad) + b"".join(tail))
    if draw(st.integers(0, 3)) == 0:
        rounds.append(b"".join(draw(st.lists(h2_frames(), min_size=1, max_size=2))))
    return {"stage": draw(st.sampled_from(["h2-alpn", "h2-prior"])), "n": n, "rounds": rounds, "order": draw(st.permutations(list(range(n)))),
            "seg": draw(st.sampled_from([None, None, [1], [9], [5, 100]])), "sync": draw(st.booleans())}


def execute_siblings(case) -> Outcome:
    excs, world = siblings_target(case["stage"], case["rounds"], case["n"], case["order"], case.get("sync", True), seg=case.get("seg"))
    what = (f"[{'sync' if case.get('sync', True) else 'async'}] {case['n']} HTTP/2 responses open on one connection, bodies read in order {list(case['order'])}, "
            f"peer bytes after the heads {b''.join(case['rounds'][1:])[-100:]!r}")
    vio = []
    for step, exc in excs:
        if exc["type"] == "HANG":
            vio.append(V(P, "hang", f"{what}: {step} does not terminate although the peer's input has ended", stage="h2", exc="HANG", site=exc.get("inner")))
        elif not exc["documented"]:
            vio.append(V(P, "undocumented-exception", f"{what}: {step} raised {exc['type']}: {exc['msg'][:200]} (raised in {exc.get('inner')})",
                         stage="h2", exc=exc["type"], site=exc.get("inner")))
        elif step.startswith("read#") and exc["name"] != "RemoteProtocolError":
            vio.append(V(P, "wrong-class", f"{what}: {step} raised {exc['type']} for malformed peer data (expected RemoteProtocolError): {exc['msg'][:200]} "
                         f"(raised in {exc.get('inner')})", stage="h2", exc=exc["type"], site=exc.get("inner")))
    failing_reads = sum(1 for step, _ in excs if step.startswith("read#"))
    tags = ["siblings", f"n={case['n']}", f"failing-reads={failing_reads}"] + sorted({"out-" + e["name"] for _, e in excs})
    return Outcome(vio[:4], tags, failing_reads >= 2, key=[case["stage"], case["rounds"], list(case["order"]), case.get("seg")],
                   info={"steps": [(s_, e["name"]) for s_, e in excs]})

# ----------------------------------------------------------------------------- (2) mutations of valid conversations

_VALID = {}


def valid_conversations():
    """Server byte streams of well-formed conversations, recorded from the real peer models."""
    if _VALID:
        return _VALID
    from ..peers.endpoints import NetConfig

    plans = {"h1": [{"framing": "cl", "body_len": 30}, {"framing": "chunked", "chunks": [7, 3], "body_len": 40, "interim": [100]},
                    {"framing": "close", "body_len": 25, "version": "1.0"}, {"status": 204}],
             "h2-alpn": [{"body_len": 30, "h2_frames": [11]}, {"body_len": 0, "h2_trailers": True}, {"body_len": 70, "h2_pad": 3, "h2_continuation": 2, "interim": [103]}]}
    for stage, pls in plans.items():
        for i, plan in enumerate(pls):
            cfg = NetConfig(endpoints={"a.test:443": {"role": "origin", "alpn": "h2"}}, default_plan=plan)
            world = World(peer_factory=cfg.peer_factory)
            pool = build_pool(world, {"http2": True} if stage != "h1" else {}, sync=True)
            url = "https://a.test/x" if stage != "h1" else "http://a.test/x"
            sync_request(pool, {"method": "GET", "url": url})
            pool.close()
            _VALID[f"{stage}:{i}"] = (stage, bytes(world.pipes[0].sent))
    # SOCKS and CONNECT conversations
    _VALID["socks:0"] = ("socks", [b"", b"\x05\x00", b"\x05\x00\x00\x01\x00\x00\x00\x00\x00\x00", HTTP_OK])
    _VALID["socks-auth:0"] = ("socks-auth", [b"", b"\x05\x02", b"\x01\x00", b"\x05\x00\x00\x01\x00\x00\x00\x00\x00\x00", HTTP_OK])
    _VALID["connect:0"] = ("connect", [b"", b"HTTP/1.1 200 Connection established\r\n\r\n", HTTP_OK])
    return _VALID


@st.composite
def mutation_cases(draw):
    keys = ["h1:0", "h1:1", "h1:2", "h1:3", "h2-alpn:0", "h2-alpn:0", "h2-alpn:1", "h2-alpn:2", "h2-alpn:2", "socks:0", "socks-auth:0", "connect:0"]
    key = draw(st.sampled_from(keys))
    muts = []
    for _ in range(draw(st.integers(1, 3))):
        muts.append([draw(st.sampled_from(["flip", "flip", "delete", "dup", "insert", "truncate", "set", "swap"])), draw(st.floats(0, 1, allow_nan=False, width=32)),
                     draw(st.integers(1, 12)), draw(st.integers(0, 255))])
    return {"key": key, "mutations": muts, "seg": draw(st.sampled_from([None, None, [1], [9, 4]])), "sync": draw(st.booleans()),
            "read": draw(st.sampled_from([None, None, None, 0, 1]))}


def mutate(data: bytes, muts) -> bytes:
    b = bytearray(data)
    for kind, frac, n, val in muts:
        if not b:
            break
        pos = min(len(b) - 1, int(frac * len(b)))
        if kind == "flip":
            b[pos] ^= 1 << (val % 8)
        elif kind == "set":
            b[pos] = val
        elif kind == "delete":
            del b[pos:pos + n]
        elif kind == "dup":
            b[pos:pos] = b[pos:pos + n * 3]
        elif kind == "insert":
            b[pos:pos] = bytes([val]) * n
        elif kind == "truncate":
            del b[pos:]
        elif kind == "swap":
            seg1 = bytes(b[pos:pos + n])
            b[pos:pos + n] = bytes(reversed(seg1))
    return bytes(b)


def execute_mutation(case) -> Outcome:
    stage, conv = valid_conversations()[case["key"]]
    if isinstance(conv, list):
        flat = b"".join(conv)
        m = mutate(flat, case["mutations"])
        # keep the round structure approximately: cut at the original boundaries
        rounds = []
        pos = 0
        for r in conv:
            rounds.append(m[pos:pos + len(r)])
            pos += len(r)
        rounds[-1] += m[pos:]
    else:
        rounds = [b"", mutate(conv, case["mutations"])]
    out, world = target(stage, rounds, seg=case.get("seg"), sync=case.get("sync", True), read=case.get("read"))
    what = f"[{'sync' if case.get('sync', True) else 'async'}] {case['key']} mutated by {case['mutations']}{'' if case.get('read') is None else ', response closed after ' + str(case['read']) + ' part(s)'}"
    vio = judge(stage, out, what)
    outcome = "success" if out["exc"] is None else out["exc"]["name"]
    tags = ["mut-" + stage.split("-")[0], "out-" + outcome]
    return Outcome(vio, tags, units_consumed(world) >= 9, key=[case["key"], case["mutations"], case.get("seg"), case.get("read")],
                   info={"outcome": outcome, "site": out["exc"] and out["exc"].get("inner")})


# ----------------------------------------------------------------------------- injected backend faults and invalid requests

FAULT_KINDS = ["direct-h1", "direct-tls-h1", "direct-h2", "prior-h2", "forward", "tunnel-h1", "tunnel-h2", "socks-auth-h1", "socks-tls-h1"]
FAULTS = {"connect": ["ConnectError", "ConnectTimeout"], "start_tls": ["ConnectError", "ConnectTimeout"],
          "read": ["ReadError", "ReadTimeout", "eof"], "write": ["WriteError", "WriteTimeout"]}


def _fault_run(kind, fault, sync):
    pool_cfg, cfg, scheme = topo(kind)
    world = World(peer_factory=cfg.peer_factory, faults=[dict(fault)] if fault else [])
    pool = build_pool(world, pool_cfg, sync=sync)
    spec = {"method": "POST", "url": f"{scheme}://a.test/t/f0", "content": {"chunks": [b"ab", b"cd"]}}
    if sync:
        out = sync_request(pool, spec)
        pool.close()
    else:
        async def go():
            o = await async_request(pool, spec)
            await pool.aclose()
            return o

        out = run_async(go())
    return out, world


def fault_cases(tier):
    cases = []
    for kind in FAULT_KINDS:
        _, world = _fault_run(kind, None, True)
        for op in world.trace:
            if "elig" in op:
                for f in FAULTS[op["kind"]]:
                    for sync in (True, False):
                        cases.append({"kind": kind, "fault": {"at": op["elig"], "fault": f}, "opkind": op["kind"], "sync": sync})
    return cases


def execute_fault(case) -> Outcome:
    out, world = _fault_run(case["kind"], case["fault"], case["sync"])
    f = case["fault"]["fault"]
    vio = []
    what = f"[{'sync' if case['sync'] else 'async'}] {case['kind']}: {f} injected at {case['opkind']} op #{case['fault']['at']}"
    exc = out["exc"]
    fired = bool(world.fired_faults)
    if exc is not None and exc["type"] == "HANG":
        vio.append(V(P, "hang", f"{what}: {exc['msg']}", stage="fault", exc="HANG", site=None))
    elif exc is not None and not exc["documented"]:
        vio.append(V(P, "undocumented-exception", f"{what}: {exc['type']}: {exc['msg'][:200]} (raised in {exc.get('inner')})", stage="fault", exc=exc["type"], site=exc.get("inner")))
    elif fired:
        name = exc["name"] if exc else "success"
        if f == "eof":
            ok = {"RemoteProtocolError", "ProxyError"}
        elif f == "WriteError":
            ok = {"WriteError", "success", "RemoteProtocolError", "ReadError", "ProxyError"}  # HTTP/1.1 suppresses it and reads the response
        else:
            ok = {f}
        if name not in ok:
            vio.append(V(P, "fault-class-mismatch", f"{what}: caller got {exc['type'] if exc else 'a response'}, expected {sorted(ok)}", stage="fault", fault=f, got=name))
    return Outcome(vio, ["fault-" + case["opkind"], case["kind"]], fired, info={"outcome": exc["name"] if exc else out.get("status")})


@st.composite
def invalid_request_cases(draw):
    kind = draw(st.sampled_from(["cl-too-long-body", "cl-too-short-body", "h2-no-host", "h1-no-host", "te-and-iter", "cl-not-a-number", "unsupported-scheme", "no-scheme"]))
    return {"what": kind, "proto": draw(st.sampled_from(["h1", "h2"])), "sync": draw(st.booleans()), "n": draw(st.integers(1, 40))}


def execute_invalid(case) -> Outcome:
    from ..peers.endpoints import NetConfig

    h2 = case["proto"] == "h2"
    cfg = NetConfig(endpoints={"a.test:443": {"role": "origin", "alpn": "h2" if h2 else "http/1.1"}})
    world = World(peer_factory=cfg.peer_factory)
    pool = build_pool(world, {"http2": h2}, sync=case["sync"])
    url = "https://a.test/t/i0"
    n = case["n"]
    w = case["what"]
    spec = {"method": "POST", "url": url, "api": "request"}
    expect_error = True
    if w == "cl-too-long-body":
        spec.update(headers=[["Content-Length", str(n)]], content={"chunks": [b"x" * n, b"extra"]})
        expect_error = not h2
    elif w == "cl-too-short-body":
        spec.update(headers=[["Content-Length", str(n + 5)]], content={"chunks": [b"x" * n]})
        expect_error = not h2
    elif w in ("h2-no-host", "h1-no-host"):
        spec.update(api="handle", headers=[["X-A", "b"]], content=None)
    elif w == "te-and-iter":
        spec.update(headers=[["Transfer-Encoding", "gzip"]], content={"chunks": [b"abc"]})
    elif w == "cl-not-a-number":
        spec.update(headers=[["Content-Length", "abc"]], content=b"abc")
        expect_error = not h2
    elif w == "unsupported-scheme":
        spec.update(url="ftp://a.test/x")
    else:
        spec.update(url="//a.test/x")
    if case["sync"]:
        out = sync_request(pool, spec)
        pool.close()
    else:
        async def go():
            o = await async_request(pool, spec)
            await pool.aclose()
            return o

        out = run_async(go())
    vio = []
    exc = out["exc"]
    what = f"[{'sync' if case['sync'] else 'async'}] invalid request '{w}' over {case['proto']}"
    if exc is not None and not exc["documented"]:
        vio.append(V(P, "undocumented-exception", f"{what}: {exc['type']}: {exc['msg'][:200]} (raised in {exc.get('inner')})", stage="invalid-request", exc=exc["type"], site=exc.get("inner")))
    elif exc is not None and expect_error:
        want = "UnsupportedProtocol" if w in ("unsupported-scheme", "no-scheme") else "LocalProtocolError"
        if exc["name"] != want:
            vio.append(V(P, "wrong-class", f"{what}: {exc['type']}, expected {want}", stage="invalid-request", exc=exc["type"], site=exc.get("inner")))
    return Outcome(vio, ["invalid-" + w, case["proto"]], True, info={"outcome": exc["name"] if exc else out.get("status")})


# ----------------------------------------------------------------------------- (3) Atheris campaign (thorough tier only)

def campaign_cases(tier):
    if tier != "thorough":
        return []
    return [{"shard": i, "runs": 120000, "seeded": i % 2 == 0} for i in range(16)]


def execute_campaign(case) -> Outcome:
    """One libFuzzer process: -seed from VERIF_SEED and the shard, -runs bounded, own scratch corpus; findings are case files."""
    import glob
    import json
    import os
    import shutil
    import subprocess
    import tempfile

    from ..common import VERIF, unjson

    try:
        subprocess.run(["/venv/bin/python", "-c", "import sys; sys.path.insert(0, %r); import atheris" % os.path.join(VERIF, ".deps")], check=True,
                       capture_output=True, timeout=60)
    except Exception:
        return Outcome([], ["atheris-unavailable"], False, info={"skipped": "atheris is not importable (setup.sh could not install it)"})
    scratch = tempfile.mkdtemp(prefix="c15fuzz.")
    try:
        env = dict(os.environ)
        env["C15_FUZZ_OUT"] = os.path.join(scratch, "out")
        env["PYTHONPATH"] = VERIF + os.pathsep + os.path.join(VERIF, ".deps")
        corpus = os.path.join(scratch, "corpus")
        os.makedirs(corpus)
        if case["seeded"]:
            env["C15_FUZZ_SEED_CORPUS"] = corpus  # valid conversations; the other shards start from an empty corpus
        seed_val = (int(os.environ.get("VERIF_SEED") or "1") * 1009 + case["shard"] * 31 + 7) % (2 ** 31 - 1) or 1
        cmd = ["/venv/bin/python", os.path.join(VERIF, "fuzz", "c15_fuzz.py"), f"-runs={case['runs']}", f"-seed={seed_val}", "-max_len=900", "-timeout=30",
               "-print_final_stats=0", corpus]
        try:
            subprocess.run(cmd, env=env, cwd=scratch, stdout=subprocess.DEVNULL, stderr=subprocess.DEVNULL, timeout=1500)
        except subprocess.TimeoutExpired:
            pass  # (subprocess.run kills the child) - inconclusive for the rest of this shard, never a violation
        execs = nontriv = 0
        outcomes = {}
        for f in glob.glob(os.path.join(scratch, "out", "stats-*.json")):
            d = json.load(open(f))
            execs += d["execs"]
            nontriv += d["nontrivial"]
            for k, v in d["outcomes"].items():
                outcomes[k] = outcomes.get(k, 0) + v
        vio = []
        replay = None
        for f in sorted(glob.glob(os.path.join(scratch, "out", "finding-*.json"))):
            d = json.load(open(f))
            c = unjson(d["case"])
            # re-run through the same oracle outside the fuzzer before believing it
            again = execute_grammar(c)
            for v in again.violations:
                vio.append(v)
                if replay is None:
                    replay = ("grammar", c)
        corpus_n = len(os.listdir(corpus))
        return Outcome(vio[:6], ["atheris-shard", "seeded" if case["seeded"] else "empty-corpus"], execs > 0, key=["campaign", case["shard"]],
                       info={"execs": execs, "nontrivial_execs": nontriv, "outcomes": outcomes, "corpus_files": corpus_n, "libfuzzer_seed": seed_val},
                       metrics={"atheris_execs": execs, "atheris_nontrivial_execs": nontriv}, replay=replay)
    finally:
        shutil.rmtree(scratch, ignore_errors=True)


RULE = ("grammar layer: HTTP/1.1 responses assembled from valid and defective status lines, header lines, line terminators and bodies (bad/duplicate/conflicting "
        "Content-Length, bad chunk sizes, oversized heads, NUL/CR, early EOF), HTTP/2 frame sequences of any type 0-255 with arbitrary flags, stream ids "
        "(0, odd, even, far future, reserved bit), lying lengths and payloads that are valid for the type, random, or HPACK with bad indices / oversize "
        "integers / bad Huffman / defective :status, SOCKS5 method / auth / command replies (valid, refusing, malformed, merged, split) and CONNECT replies; "
        "h2-siblings layer: one caller holds 2-3 streamed HTTP/2 responses open on one connection when the defective frames arrive, then reads the bodies in a "
        "drawn order and closes everything - EVERY step (open, read, close, pool close) must raise nothing but documented classes, body reads only "
        "RemoteProtocolError (the error a sibling's read ran into must reach the other streams as a documented class too); "
        "mutation layer: bit flips, byte sets, deletions, duplications, insertions, reversals and truncations of server streams recorded from well-formed "
        "conversations (HTTP/1.1 Content-Length / chunked+100 / HTTP/1.0 close / 204, HTTP/2 with padding, CONTINUATION, trailers, 103, SOCKS with and "
        "without auth, CONNECT); faults layer (enumerated): every documented backend exception at every network op of 9 connection kinds, sync and async; "
        "invalid-requests layer: Content-Length / body mismatches, missing Host, bad Transfer-Encoding, unsupported schemes. thorough adds an Atheris "
        "(libFuzzer) campaign on the same target. Non-trivial: the client consumed at least one structural unit (>= 9 bytes) of peer input before the "
        "outcome; distinct by (stage, peer bytes, segmentation).")

PROP = Prop(
    P, level="exploration", rule=RULE,
    layers=[
        Layer("grammar", stall_is_violation=True, strategy=grammar_cases, execute=execute_grammar, budget={"quick": 6000, "thorough": 200000}),
        Layer("h2-siblings", stall_is_violation=True, strategy=sibling_cases, execute=execute_siblings, budget={"quick": 1500, "thorough": 60000}),
        Layer("mutation", stall_is_violation=True, strategy=mutation_cases, execute=execute_mutation, budget={"quick": 3000, "thorough": 120000}),
        Layer("faults", stall_is_violation=True, cases=fault_cases, execute=execute_fault),
        Layer("invalid-requests", strategy=invalid_request_cases, execute=execute_invalid, budget={"quick": 300, "thorough": 3000}),
        Layer("atheris", cases=campaign_cases, execute=execute_campaign, stall_s=3600),
        __import__("vf.props.real", fromlist=["layer_for"]).layer_for("C15", {"quick": 700, "thorough": 24000}),
    ],
    assumptions=["the replay peer sends its script whatever the client writes and releases the next round early rather than letting a read block, so a blocked "
                 "read after the script has ended is EOF; a hang is therefore a genuine non-termination",
                 "documented = TimeoutException, NetworkError, ProtocolError, ProxyError subclasses and UnsupportedProtocol",
                 "'class matches cause' for peer data: success, RemoteProtocolError, or ProxyError at a SOCKS / CONNECT stage"],
    explanation="Input space sampled by structure-aware generators and mutation; the thorough tier adds coverage-guided fuzzing.",
)
