"""C16 - timeouts are applied, and to the right operations.

Layer 'arguments' (exhaustive matrix): every combination of connect/read/write/pool in {absent, None, 0, distinct
positive value} x connection kind x request shape; two sequential requests with *different* dictionaries on the same
(reused) connection; sync and async. Oracle over the op trace: connect and every start_tls carry the request's
connect value, reads its read value, writes its write value (absent/None = None); proxy negotiation steps carry one
of the request's configured values and never None when all four are set.
Layer 'pool-timeout': see vf/props/c16_pool.py (virtual clock, concurrent driver).
"""
from __future__ import annotations

import itertools

from ..common import Outcome, V
from ..drivers import async_request, build_pool, run_async, sync_request
from ..prop import Layer, Prop
from ..simnet import World
from ..topo import KINDS, topo

P = "C16"
VALUES = {"connect": 1.5, "read": 2.5, "write": 3.5, "pool": 4.5}
VALUES2 = {"connect": 11.5, "read": 12.5, "write": 13.5, "pool": 14.5}
OPTIONS = ("absent", "none", "zero", "value")
KEYS = ("connect", "read", "write", "pool")
SHAPES = ("get", "post3", "stream", "postbig")
from ..topo import REFUSALS  # noqa: E402

from ..topo import UDS_KINDS  # noqa: E402

KIND_LIST = [k for k in KINDS if k not in ("direct-h2-fallback-h1", "forward-auth") and k not in REFUSALS] + list(UDS_KINDS)


def tdict(combo, values):
    d = {}
    for k, o in zip(KEYS, combo):
        if o == "none":
            d[k] = None
        elif o == "zero":
            d[k] = 0
        elif o == "value":
            d[k] = values[k]
    return d


def matrix(tier):
    cases = []
    for kind in KIND_LIST:
        for combo in itertools.product(OPTIONS, repeat=4):
            # request shapes rotate with the cell so that every (kind, combo) gets one and every shape meets every kind
            for shape in SHAPES:
                if shape == "postbig" and sum(OPTIONS.index(o) * 4 ** i for i, o in enumerate(combo)) % 8 != 3 and list(combo) != ["value"] * 4:
                    continue  # the big upload meets every kind with a thirty-second of the combinations (and always with four distinct values)
                cases.append({"kind": kind, "combo": list(combo), "shape": shape})
    return cases


def req_spec(scheme, shape, tok, timeouts):
    spec = {"url": f"{scheme}://a.test/t/{tok}", "timeouts": timeouts}
    if shape == "get":
        spec.update(method="GET", api="request")
    elif shape == "post3":
        spec.update(method="POST", api="request", content={"chunks": [b"aa", b"bbb", b"c"]})
    elif shape == "postbig":
        # larger than the HTTP/2 flow-control window: the upload has to wait for WINDOW_UPDATE frames (reads in the middle of the upload)
        spec.update(method="POST", api="request", content={"chunks": [b"x" * 70000, b"y" * 70000]})
    else:
        spec.update(method="GET", api="stream", read="all")
    return spec


def run(case, sync):
    # (the first response is preceded by an interim 103: with 20-byte reads the final status line arrives in a later read than the interim one)
    pool_cfg, cfg, scheme = topo(case["kind"], plans={"s0": {"framing": "chunked", "chunks": [3], "body_len": 10, "interim": [103]}})
    world = World(peer_factory=cfg.peer_factory, seg=[20])
    pool = build_pool(world, pool_cfg, sync=sync)
    t1 = tdict(case["combo"], VALUES)
    # second request: same shape of dictionary, rotated option per key, other values
    combo2 = case["combo"][1:] + case["combo"][:1]
    t2 = tdict(combo2, VALUES2)
    specs = [req_spec(scheme, case["shape"], "s0", t1), req_spec(scheme, "get" if case["shape"] not in ("get",) else "post3", "s1", t2)]
    outs = []
    if sync:
        for i, s in enumerate(specs):
            world.current_actor = i
            outs.append(sync_request(pool, s))
        world.current_actor = None
        pool.close()
    else:
        async def go():
            for i, s in enumerate(specs):
                world.current_actor = i
                outs.append(await async_request(pool, s))
            world.current_actor = None
            await pool.aclose()

        run_async(go())
    return world, outs, [t1, t2]


def is_negotiation(world, op):
    if op["pipe"] is None:
        return False
    pipe = world.pipes[op["pipe"]]
    role = type(pipe.peer).__name__
    if role == "SocksPeer":
        if pipe.neg_written is None:
            return op["kind"] in ("read", "write")
        if op["kind"] == "write":
            return op["w_off"] < pipe.neg_written
        if op["kind"] == "read":
            return op["r_off"] < pipe.neg_sent
        return False
    if getattr(pipe.peer, "is_proxy", False) and (pipe.peer.connects or pipe.neg_written is not None):
        if pipe.neg_written is None:
            return op["kind"] in ("read", "write")
        if op["kind"] == "write":
            return op["w_off"] < pipe.neg_written
        if op["kind"] == "read":
            return op["r_off"] < pipe.neg_sent
    return False


def judge(case, world, outs, tds, variant):
    vio = []
    kind = case["kind"]
    for i, o in enumerate(outs):
        if o["exc"] is not None or o.get("status") != 200:
            vio.append(V(P, "request-failed", f"[{variant}] {kind} request {i} with timeouts {tds[i]}: {o['exc'] or o.get('status')}",
                         conn=kind))
    n_checked = 0
    for op in world.trace:
        i = op["actor"]
        if i is None or op["kind"] not in ("connect", "start_tls", "read", "write"):
            continue
        if op["kind"] == "write" and not op["data"]:
            continue
        td = tds[i]
        n_checked += 1
        got = op["timeout"]
        if is_negotiation(world, op):
            configured = [td.get(k) for k in KEYS]
            all_set = all(k in td and td[k] is not None for k in KEYS)
            allowed = set(v for v in configured)
            if got not in allowed and not (got is None and not all_set):
                vio.append(V(P, "negotiation-timeout", f"[{variant}] {kind}: proxy negotiation {op['kind']} issued with timeout {got!r}, "
                             f"request configured {td}", conn=kind.split('-')[0], op=op["kind"]))
            elif got is None and all_set:
                vio.append(V(P, "negotiation-unlimited", f"[{variant}] {kind}: proxy negotiation {op['kind']} issued without any timeout "
                             f"although the request configured {td}", conn=kind.split('-')[0], op=op["kind"]))
            continue
        key = {"connect": "connect", "start_tls": "connect", "read": "read", "write": "write"}[op["kind"]]
        want = td.get(key)
        if got != want or (got is None) != (want is None):
            vio.append(V(P, "wrong-timeout", f"[{variant}] {kind} request {i}: {op['kind']} on pipe {op['pipe']} issued with timeout "
                         f"{got!r}, the request's {key} timeout is {want!r} (timeouts {td})", conn=kind, op=op["kind"], key=key))
    return vio[:6], n_checked


def execute(case) -> Outcome:
    vio = []
    checked = 0
    for sync in (True, False):
        world, outs, tds = run(case, sync)
        v, n = judge(case, world, outs, tds, "sync" if sync else "async")
        vio += v
        checked += n
    combo = case["combo"]
    tags = [case["kind"], "shape-" + case["shape"]]
    all_values = all(o == "value" for o in combo)
    if all_values:
        tags.append("all-four-distinct")
    reused = len(world.pipes) == 1
    if reused:
        tags.append("reused-connection")
    nontrivial = all_values or (reused and combo != combo[1:] + combo[:1])
    return Outcome(vio[:8], tags, nontrivial, info={"ops_checked": checked, "pipes": len(world.pipes)},
                   metrics={"ops_checked": checked, "executions": 2})


RULE = ("arguments layer: connection kind (direct plain/TLS, HTTP/2 via ALPN and prior knowledge, forward proxy (http/https proxy), "
        "CONNECT tunnel (h1/h2/https proxy/with auth), SOCKS5 with/without auth/TLS/h2) x every combination of connect/read/write/pool "
        "in {absent, None, 0, distinct positive value} (256) x request shape {GET, POST with a 3-chunk iterator body, streamed "
        "response, POST of 140 kB (beyond the HTTP/2 window; on a thirty-second of the combinations)}; each cell issues two sequential requests with different timeout dictionaries (the second usually on the reused "
        "connection), sync and async, and checks the timeout argument of every connect/start_tls/read/write op. Both tiers enumerate the full "
        "matrix. Non-trivial: all four values distinct and "
        "non-None, or a reused connection with a changed dictionary; distinct = distinct cell.")

PROP = Prop(
    P, level="exploration", rule=RULE,
    layers=[Layer("arguments", cases=matrix, execute=execute)],
    assumptions=["ops are attributed to requests by sequencing (single caller), so attribution is unambiguous",
                 "for proxy negotiation steps any of the request's configured values is accepted (the property says 'one of')",
                 "0 is passed through as a value; SimNet does not interpret timeouts of ops that can complete"],
    explanation="Exhaustive over the stated matrix in both tiers.",
)


# ----------------------------------------------------------------------------- pool timeout on the virtual clock (concurrent asyncio driver)

from hypothesis import strategies as st  # noqa: E402

from ..aio import AioRun, Caller  # noqa: E402


@st.composite
def pool_timeout_scenarios(draw):
    n_hold = draw(st.sampled_from([1, 1, 2]))
    waiters = []
    for i in range(draw(st.integers(1, 4))):
        waiters.append({"p": draw(st.sampled_from([0, 0, 0.5, 1.0, 2.5, 7.0, None])), "host": draw(st.sampled_from(["a.test", "a.test", "b.test"]))})
    # (direct-h2-fallback-h1: an http2-capable pool against an HTTP/1.1 server - requests that were assigned the connecting connection get
    # ConnectionNotAvailable once ALPN has chosen HTTP/1.1 and go back to the queue with whatever is left of their pool timeout)
    return {"kind": draw(st.sampled_from(["direct-h1", "direct-h1", "direct-tls-h1", "forward", "tunnel-h1", "socks-h1", "direct-h2-fallback-h1", "direct-h2-fallback-h1"])),
            "holders": n_hold, "waiters": waiters,
            "advances": draw(st.lists(st.sampled_from([0.3, 0.7, 1.1, 2.3, 5.0]), max_size=6)),
            "choices": draw(st.lists(st.integers(0, 9), max_size=60)), "runtime": draw(st.sampled_from(["asyncio", "trio"])),
            "late": draw(st.sampled_from([[], [], [1], [0, 1], [0, 0, 1], [1, 0, 0, 0]])), "share_timeouts": draw(st.booleans())}


def execute_pool_timeout(sc) -> Outcome:
    pool_cfg, cfg, scheme = topo(sc["kind"], pool_extra={"max_connections": sc["holders"]})
    world = World(peer_factory=cfg.peer_factory)
    callers = []
    shared_dicts = {}
    for i in range(sc["holders"]):
        c = Caller(len(callers), [{"spec": {"method": "GET", "url": f"{scheme}://a.test/t/h{i}"}, "tok": f"h{i}", "mode": "hold"}])
        c.start_first = True
        callers.append(c)
    for j, w in enumerate(sc["waiters"]):
        spec = {"method": "GET", "url": f"{scheme}://{w['host']}/t/w{j}"}
        if w["p"] is not None:
            spec["timeouts"] = {"pool": w["p"]}
            if sc.get("share_timeouts"):
                # the caller keeps ONE timeout dictionary per configuration and passes the same object with every request
                spec["timeouts_obj"] = shared_dicts.setdefault(w["p"], {"pool": w["p"]})
        callers.append(Caller(len(callers), [{"spec": spec, "tok": f"w{j}", "mode": "read_all"}]))
    final = {}

    async def epilogue(r):
        final["repr"] = repr(r.pool)
        await r.pool.aclose()

    from ..trio_run import make_run

    async def epilogue(r):  # noqa: F811 - also records what the pool still holds once every caller is done
        final["repr"] = repr(r.pool)
        final["conns"] = [(c.info(), c.is_idle(), c.is_closed(), c.has_expired()) for c in r.pool.connections]
        await r.pool.aclose()

    r = make_run(sc.get("runtime"))(world, pool_cfg, callers, choices=sc["choices"], advances=sc["advances"], epilogue=epilogue, late=sc.get("late", ()))
    # harness-side observation: when a request that HAD been given a connection is put back into the queue (ConnectionNotAvailable, e.g. an
    # http2-capable connection that turned out to speak HTTP/1.1). The time it spent attached to that connection is not time "in the queue
    # without being given a connection": its PoolTimeout is due at t0 + max(p, moment of the last re-queue).
    import httpcore._async.connection_pool as _pool_mod

    requeued = {}
    _req_cls = getattr(_pool_mod, "AsyncPoolRequest", None)
    _orig_clear = getattr(_req_cls, "clear_connection", None)
    if _orig_clear is None:
        r.run()  # (the private hook is gone in this version of the library: the re-queue case is then judged like any other)
    else:
        def _clear(self_):
            try:
                requeued[bytes(self_.request.url.target)] = world.clock.now
            except Exception:  # pragma: no cover
                pass
            return _orig_clear(self_)

        _req_cls.clear_connection = _clear
        try:
            r.run()
        finally:
            _req_cls.clear_connection = _orig_clear
    vio = []
    what = ("[trio] " if sc.get("runtime") == "trio" else "") + f"{sc['kind']} max_connections={sc['holders']} waiters={[w['p'] for w in sc['waiters']]}"
    tags = [sc["kind"], "runtime-" + (sc.get("runtime") or "asyncio")]
    close_call = False
    waited = False
    for j, w in enumerate(sc["waiters"]):
        c = callers[sc["holders"] + j]
        if not c.results:
            continue
        out = c.results[0]
        p = w["p"]
        t0 = out["t0"]
        # (a close does not count: the task that gives up also runs the pool's re-assignment pass and may close an idle connection that has
        # to make room for somebody else's request)
        first_op = next((op for op in world.trace if op["actor"] == c.id and op["kind"] != "close"), None)
        issued = r.first_issue.get(c.id)
        if out["exc"] is not None and out["exc"]["name"] == "PoolTimeout":
            tags.append("pool-timeout")
            if p is None:
                vio.append(V(P, "pool-timeout-without-limit", f"{what}: waiter {j} has no pool timeout but raised PoolTimeout", conn=sc["kind"]))
            else:
                dt = out["t1"] - t0
                rq = requeued.get(f"/t/w{j}".encode())
                if rq is not None and rq - t0 > p:
                    tags.append("requeued-after-deadline")
                    p = rq - t0  # it held a connection until then; once re-queued with nothing left of its timeout it must fail at once
                if dt < p - 1e-3:
                    vio.append(V(P, "pool-timeout-early", f"{what}: waiter {j} raised PoolTimeout after {dt:.6f}s of virtual time, its pool timeout is {p}", conn=sc["kind"]))
                elif dt > p + 1e-3 and (_orig_clear is not None or sc["kind"] != "direct-h2-fallback-h1"):
                    vio.append(V(P, "pool-timeout-late", f"{what}: waiter {j} raised PoolTimeout after {dt:.6f}s of virtual time, its pool timeout is {p}", conn=sc["kind"]))
                if first_op is not None:
                    vio.append(V(P, "pool-timeout-after-network", f"{what}: waiter {j} raised PoolTimeout although it had started network operations", conn=sc["kind"]))
        elif out["exc"] is not None:
            vio.append(V(P, "request-failed", f"{what}: waiter {j}: {out['exc']['type']}: {out['exc']['msg']}", conn=sc["kind"]))
        else:
            if issued is not None and p is not None:
                rq = requeued.get(f"/t/w{j}".encode())
                if rq is not None and rq - t0 > p:
                    p = rq - t0  # it was given a connection in time, lost it (ConnectionNotAvailable) and may be served again at that very moment
                wait = issued - t0
                if wait > 1e-3:
                    waited = True
                if wait > p + 1e-3 and (_orig_clear is not None or sc["kind"] != "direct-h2-fallback-h1"):
                    vio.append(V(P, "served-after-deadline", f"{what}: waiter {j} was given a connection {wait:.6f}s after it asked, later than its pool timeout {p}", conn=sc["kind"]))
                if abs(wait - p) < 0.5 and wait > 0:
                    close_call = True
    for p_, d_ in shared_dicts.items():
        if d_ != {"pool": p_}:
            vio.append(V(P, "pool-timeout-early", f"{what}: the timeout dictionary {{'pool': {p_}}} that the caller passes with every request was changed by the library to "
                         f"{d_!r}: later requests that are configured with it no longer wait for their pool timeout", conn=sc["kind"], via="caller-dict-changed"))
    if shared_dicts:
        tags.append("shared-timeout-dict")
    if r.deadlock is not None:
        vio.append(V(P, "deadlock", f"{what}: {r.deadlock}", conn=sc["kind"]))
    if final.get("repr") and "Requests: 0 active, 0 queued" not in final["repr"] and r.deadlock is None:
        vio.append(V(P, "request-not-forgotten", f"{what}: every caller has returned but the pool reports {final['repr']}", conn=sc["kind"]))
    if r.deadlock is None:
        for info, idle, closed, expired in final.get("conns", []):
            if not (idle or closed or expired):
                vio.append(V(P, "request-not-forgotten", f"{what}: every caller has returned but the pool keeps a connection that is neither idle, closed nor expired: "
                             f"{info!r} (pool {final.get('repr')}) - a waiter that raised PoolTimeout had been given it", conn=sc["kind"], state="stuck-connection"))
    if any(w["p"] == 0 for w in sc["waiters"]):
        tags.append("zero-pool-timeout")
    if any(x[1] == "late-loop" for x in r.log):
        tags.append("late-loop")
    nontrivial = "pool-timeout" in tags or waited
    return Outcome(vio[:5], sorted(set(tags)), nontrivial, info={"outcomes": [(c.results[0].get("status") or c.results[0]["exc"]["name"]) if c.results else None for c in callers],
                                                                 "final": final.get("repr")})


PROP.layers.append(Layer("pool-timeout", strategy=pool_timeout_scenarios, execute=execute_pool_timeout, budget={"quick": 1200, "thorough": 50000}))
PROP.rule += (" pool-timeout layer: 1-2 holders keep every connection of the pool (max_connections = number of holders) until the scheduler releases them; 1-4 waiters "
              "with pool timeout in {0, 0.5, 1, 2.5, 7, None}; virtual-clock advances of 0.3-5 s, timer firings, releases and starts are scheduler choices. "
              "Oracle: PoolTimeout exactly at t0+p (+-1 ms of virtual time), never after a network op of that request, a served waiter got its connection no "
              "later than t0+p, the pool forgets every finished request. Non-trivial: a waiter timed out or actually waited.")


# ----------------------------------------------------------------------------- retried connection attempts keep the request's connect timeout

def retry_attempt_cases(tier):
    from . import c20

    out = []
    for case in c20._quick_cases(tier):
        n_fail = sum(1 for a in case["attempts"] if a != "ok" and a.split(":")[1] in c20.RETRYABLE)
        if case["retries"] >= 1 and n_fail >= 1 and case.get("connect_timeout") is not None and case.get("exchange") is None:
            out.append(case)
    return out


def execute_retry_attempts(case) -> Outcome:
    from . import c20

    vio = []
    for sync in (True, False):
        world, out = c20.run_one(case, sync)
        want = case["connect_timeout"]
        for op in world.trace:
            if op["kind"] in ("connect", "start_tls") and op.get("timeout") != want:
                vio.append(V(P, "wrong-timeout", f"[{'sync' if sync else 'async'}] retries={case['retries']} attempts={case['attempts']} ({case['transport']}, "
                             f"{'TLS' if case['tls'] else 'plain'}): attempt op #{op['seq']} {op['kind']} was issued with timeout {op.get('timeout')}, the request's connect timeout is {want}",
                             conn="retry-" + case["transport"], key="connect", op=op["kind"]))
                break
    n_attempts = sum(1 for a in case["attempts"] if a != "ok") + 1
    return Outcome(vio[:2], ["retry-attempts", f"retries={case['retries']}", case["transport"], "tls" if case["tls"] else "plain"], n_attempts >= 2)


PROP.layers.append(Layer("retry-attempts", cases=retry_attempt_cases, execute=execute_retry_attempts))
PROP.rule += (" retry-attempts layer (enumerated): every sequence of retryable connect / TLS failures for retries 1-4 over TCP and Unix sockets with a connect timeout "
              "configured: every attempt, not only the first, must be issued with the request's connect timeout.")

from .real import layer_for as _real_layer  # noqa: E402

from .real import make_execute as _real_execute, stall_matrix as _stall_matrix  # noqa: E402

PROP.layers.append(Layer("real-stall-matrix", cases=_stall_matrix, execute=_real_execute("C16")))
PROP.layers.append(_real_layer("C16", {"quick": 240, "thorough": 8000}))
PROP.rule += (" real-backends layer: the same timeouts through httpcore's own sync / anyio / trio backends over loopback sockets against a peer that goes "
              "silent (after N response bytes, during the TLS handshake, never completing the TCP connect, or no longer reading a 3 MB upload): the request "
              "must fail with the matching ReadTimeout / ConnectTimeout / WriteTimeout, never before the configured 0.06 s.")
