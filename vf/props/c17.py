"""C17 - upgrade / CONNECT hand-over loses no bytes.

101 (with an Upgrade request) and CONNECT-2xx responses followed by d post-head bytes. The stream handed to the
caller (extensions["network_stream"]) must first yield exactly the bytes the server sent after the head, for
every segmentation of head+data and every max_bytes sequence, then the live connection's data; writes pass
through; the connection never returns to the pool. Plus: every segmentation of the tunnel proxy's own CONNECT
reply head followed by the origin exchange through the handed-over stream.
"""
from __future__ import annotations

import itertools

from hypothesis import strategies as st

from ..common import Outcome, V
from ..drivers import build_pool, exc_info, run_async
from ..peers.endpoints import NetConfig
from ..peers.h1 import body_bytes
from ..prop import Layer, Prop
from ..simnet import HarnessHang, World

P = "C17"


def leading(d):
    return body_bytes("LEAD", d)


def _spec(kind):
    kind = kind.split("+", 1)[0]
    kind = "connect" if kind.startswith("connect") else kind
    if kind == "101":
        return dict(method="GET", url="http://a.test/t/u0", headers=[("Connection", "upgrade"), ("Upgrade", "sim-proto")], ext={})
    return dict(method="CONNECT", url="http://a.test/", headers=[("Host", "dest.test:443")], ext={"target": b"dest.test:443"})


def _plan(kind, d, echo=True):
    if "+" in kind:
        # interim responses (100 Continue / 103 Early Hints) before the hand-over response, all in the same byte stream
        base, interim = kind.split("+", 1)
        plan = _plan(base, d, echo)
        plan["interim"] = [int(x) for x in interim.split("+")]
        return plan
    if kind.startswith("connect-"):
        return {"status": int(kind.split("-")[1]), "reason": "Tunnel", "headers": [], "leading": leading(d), "echo": echo}
    if kind == "101":
        return {"status": 101, "reason": "Switching Protocols", "headers": [["Connection", "upgrade"], ["Upgrade", "sim-proto"]],
                "leading": leading(d), "echo": echo}
    return {"status": 200, "reason": "Connection established", "headers": [], "leading": leading(d), "echo": echo}


def run_handover(kind, d, cuts, script, sync, seg=None, read_body_first=False):
    """script: list of ["read", m] / ["write", bytes]. Returns (world, result dict)."""
    cfg = NetConfig(default_plan=_plan(kind, d), plans={"n1": {}})
    world = World(peer_factory=cfg.peer_factory, cuts={0: cuts} if cuts else None, seg=seg)
    pool = build_pool(world, {}, sync=sync)
    sp = _spec(kind)
    res = {"reads": [], "exc": None, "status": None, "in_pool_during": None, "in_pool_after": None, "next": None}

    def expected_available(written):
        return len(leading(d)) + sum(len(w) + 1 for w in written)

    if sync:
        try:
            with pool.stream(sp["method"], sp["url"], headers=sp["headers"], extensions=dict(sp["ext"])) as resp:
                res["status"] = resp.status
                if read_body_first:
                    res["body_first"] = resp.read()  # the (empty) body of the 101 / 2xx response, read before the stream is used
                ns = resp.extensions["network_stream"]
                got = 0
                written = []
                for op in script:
                    if op[0] == "write":
                        ns.write(bytes(op[1]))
                        written.append(bytes(op[1]))
                    else:
                        if got >= expected_available(written):
                            continue  # nothing can be pending: a real read would block
                        data = ns.read(op[1])
                        res["reads"].append([op[1], data])
                        got += len(data)
                while got < expected_available(written):
                    data = ns.read(65536)
                    res["reads"].append([65536, data])
                    got += len(data)
                    if not data:
                        break
                res["in_pool_during"] = len(pool.connections)
            res["in_pool_after"] = [repr(c) for c in pool.connections]
            r2 = pool.request("GET", "http://a.test/t/n1")
            res["next"] = r2.status
        except HarnessHang as exc:
            res["exc"] = {"type": "HANG", "name": "HANG", "msg": str(exc)}
        except BaseException as exc:
            res["exc"] = exc_info(exc)
        pool.close()
    else:
        async def go():
            try:
                async with pool.stream(sp["method"], sp["url"], headers=sp["headers"], extensions=dict(sp["ext"])) as resp:
                    res["status"] = resp.status
                    if read_body_first:
                        res["body_first"] = await resp.aread()
                    ns = resp.extensions["network_stream"]
                    got = 0
                    written = []
                    for op in script:
                        if op[0] == "write":
                            await ns.write(bytes(op[1]))
                            written.append(bytes(op[1]))
                        else:
                            if got >= expected_available(written):
                                continue
                            data = await ns.read(op[1])
                            res["reads"].append([op[1], data])
                            got += len(data)
                    while got < expected_available(written):
                        data = await ns.read(65536)
                        res["reads"].append([65536, data])
                        got += len(data)
                        if not data:
                            break
                    res["in_pool_during"] = len(pool.connections)
                res["in_pool_after"] = [repr(c) for c in pool.connections]
                r2 = await pool.request("GET", "http://a.test/t/n1")
                res["next"] = r2.status
            except HarnessHang as exc:
                res["exc"] = {"type": "HANG", "name": "HANG", "msg": str(exc)}
            except BaseException as exc:
                res["exc"] = exc_info(exc)
            await pool.aclose()

        run_async(go())
    return world, res


def judge(kind, d, cuts, script, sync, world, res, mode):
    bad = []
    var = "sync" if sync else "async"
    what = f"[{var}] {kind} d={d} cuts={cuts} script={[(o[0], o[1] if o[0] == 'read' else len(o[1])) for o in script][:8]}"
    sig = dict(handover=kind, mode=mode)
    if res["exc"] is not None:
        if res["exc"]["type"] == "HANG":
            got = b"".join(r[1] for r in res["reads"])
            bad.append(V(P, "bytes-lost", f"{what}: only {len(got)} of the bytes sent after the head could be read from the stream, "
                         f"then the read would block ({res['exc']['msg']})", **sig))
        else:
            bad.append(V(P, "exception", f"{what}: {res['exc']['type']}: {res['exc']['msg']}", **sig))
        return bad
    writes = [bytes(o[1]) for o in script if o[0] == "write"]
    expected = leading(d) + b"".join(b"E" + w for w in writes)
    got = b"".join(r[1] for r in res["reads"])
    if got != expected:
        n = min(len(got), len(expected))
        diff = next((i for i in range(n) if got[i] != expected[i]), n)
        kindv = "bytes-lost" if len(got) < len(expected) else ("bytes-duplicated" if len(got) > len(expected) else "bytes-reordered")
        bad.append(V(P, kindv, f"{what}: stream yielded {len(got)} bytes, server sent {len(expected)} after the head; first difference at "
                     f"{diff}: got {got[diff:diff + 12]!r} expected {expected[diff:diff + 12]!r}", **sig))
    for m, data in res["reads"]:
        if len(data) > m:
            bad.append(V(P, "max-bytes-exceeded", f"{what}: read({m}) returned {len(data)} bytes", **sig))
            break
        if len(data) == 0:
            bad.append(V(P, "empty-read", f"{what}: read({m}) returned b'' although data was pending", **sig))
            break
    peer = world.pipes[0].peer.leaf()
    if bytes(peer.raw_in) != b"".join(writes):
        bad.append(V(P, "writes-altered", f"{what}: peer received {bytes(peer.raw_in)[:40]!r}, caller wrote {b''.join(writes)[:40]!r}", **sig))
    if world.pipes[0].open:
        bad.append(V(P, "not-closed", f"{what}: upgraded connection's stream still open after the response was closed", **sig))
    if res["in_pool_after"]:
        bad.append(V(P, "returned-to-pool", f"{what}: pool still holds {res['in_pool_after']} after the upgraded response was closed", **sig))
    if res["next"] != 200 or len(world.pipes) != 2:
        bad.append(V(P, "reused", f"{what}: follow-up request status {res['next']}, pipes opened {len(world.pipes)} (expected a new one)", **sig))
    elif world.pipes[0].peer.leaf().exchanges[1:]:
        bad.append(V(P, "reused", f"{what}: another request was written to the upgraded connection", **sig))
    return bad


MB_ALPHABET = (1, 2, 64)
MB_SEQS = [list(s) for k in (1, 2, 3) for s in itertools.product(MB_ALPHABET, repeat=k)]


def head_len(kind):
    cfg = NetConfig(default_plan=_plan(kind, 0))
    world = World(peer_factory=cfg.peer_factory)
    pool = build_pool(world, {}, sync=True)
    sp = _spec(kind)
    with pool.stream(sp["method"], sp["url"], headers=sp["headers"], extensions=dict(sp["ext"])):
        pass
    pool.close()
    return len(world.pipes[0].sent)


_HEAD = {}


def enum_cases(tier):
    out = []
    for kind in ("101", "connect", "connect-201", "connect-204", "connect-299", "101+103", "101+100+103", "connect+103"):
        for d in range(0, 7 if kind in ("101", "connect") else 4):
            npos = d + 2  # cut positions head_end-2 .. head_end+d-1 (relative: -2 .. d-1)
            for mask in range(1 << npos):
                out.append({"kind": kind, "d": d, "mask": mask})
    return out


def execute_enum(case) -> Outcome:
    kind, d, mask = case["kind"], case["d"], case["mask"]
    if kind not in _HEAD:
        _HEAD[kind] = head_len(kind)
    h = _HEAD[kind]
    positions = [h - 2 + i for i in range(d + 2) if mask & (1 << i)]
    positions = [p for p in positions if 0 < p < h + d]
    vio = []
    runs = 0
    for seq in MB_SEQS:
        script = [["read", m] for m in seq]
        for sync in ((True, False) if (mask % 8 == 0) else (True,)):
            world, res = run_handover(kind, d, positions, script, sync, read_body_first=(mask % 4 == 1))
            runs += 1
            vio += judge(kind, d, positions, script, sync, world, res, "enumerated")
            if vio:
                break
        if vio:
            break
    shared = d > 0 and h not in positions  # head and data arrive in one read
    tags = [kind, f"d={d}"]
    if shared:
        tags.append("head+data-in-one-read")
    nontrivial = d > 0 and (h not in positions)
    return Outcome(vio[:4], tags, nontrivial, info={"positions": positions, "runs": runs}, metrics={"executions": runs})


@st.composite
def random_cases(draw):
    kind = draw(st.sampled_from(["101", "101", "connect", "connect", "connect-201", "connect-202", "connect-204", "connect-226", "connect-299"]))
    d = draw(st.one_of(st.integers(0, 30), st.integers(0, 3000), st.sampled_from([65535, 65536, 65537, 131072, 200000])))
    script = []
    for _ in range(draw(st.integers(0, 8))):
        if draw(st.integers(0, 3)) == 0:
            script.append(["write", draw(st.binary(min_size=1, max_size=20))])
        else:
            script.append(["read", draw(st.one_of(st.integers(1, 8), st.integers(1, 2000), st.sampled_from([1, 65536, 131072])))])
    fr = draw(st.lists(st.floats(0, 1, allow_nan=False, width=32), max_size=5))
    near = draw(st.lists(st.integers(-3, 6), max_size=3))
    seg = draw(st.sampled_from([None, None, [1], [2, 3], [5, 1, 70000]]))
    return {"kind": kind, "d": d, "script": script, "cut_fracs": fr, "near_head": near, "seg": seg, "sync": draw(st.booleans()),
            # a caller that reads the (empty) body of the 101 / 2xx response before it uses the stream
            "read_body_first": draw(st.sampled_from([False, False, True]))}


def execute_random(case) -> Outcome:
    kind, d = case["kind"], case["d"]
    if kind not in _HEAD:
        _HEAD[kind] = head_len(kind)
    h = _HEAD[kind]
    total = h + d
    cuts = sorted({max(1, min(total - 1, int(f * total))) for f in case["cut_fracs"]} | {h + k for k in case["near_head"] if 0 < h + k < total})
    seg = case["seg"]
    if seg and d / (sum(seg) / len(seg)) > 3000:
        seg = None  # keep a single case cheap: tiny segments only with moderate amounts of data
    script = case["script"]
    if d > 20000:
        script = [o if o[0] == "write" or o[1] >= 8 else ["read", o[1] * 512] for o in script]
    world, res = run_handover(kind, d, cuts, script, case["sync"], seg=seg, read_body_first=bool(case.get("read_body_first")))
    vio = judge(kind, d, cuts, script, case["sync"], world, res, "random")
    reads = [o[1] for o in case["script"] if o[0] == "read"]
    first_read_len = None
    for o in world.trace:
        if o["kind"] == "read" and o.get("n"):
            first_read_len = o  # noqa
    shared = d > 0 and h not in cuts
    small = any(m < d for m in reads)
    tags = [kind, "writes" if any(o[0] == "write" for o in case["script"]) else "no-writes"]
    if shared:
        tags.append("head+data-in-one-read")
    if small:
        tags.append("max_bytes<leading")
    if d > 65536:
        tags.append("leading>64k")
    return Outcome(vio[:4], tags, shared and small, info={"d": d, "cuts": cuts[:8], "reads": len(res["reads"])},
                   metrics={"executions": 1})



# ----------------------------------------------------------------------------- a live read that fails once (timeout) while leading data is still buffered

def flaky_cases(tier):
    cases = []
    for kind in ("101", "connect", "connect-204"):
        for d in (0, 1, 5, 300):
            for sync in (True, False):
                cases.append({"kind": kind, "d": d, "m": 65536, "fault": "request-write-error", "sync": sync})
    for kind in ("101", "connect", "connect-204"):
        for d in (1, 2, 5, 300):
            for m in (d, d + 1, d + 50, 65536):
                for fault in ("ReadTimeout", "ReadError"):
                    for sync in (True, False):
                        cases.append({"kind": kind, "d": d, "m": m, "fault": fault, "sync": sync})
    return cases


def execute_flaky(case) -> Outcome:
    """Head and d bytes of leading data arrive in one read; the caller writes (the peer's answer is now pending on the connection: it is readable),
    then reads with max_bytes m. The FIRST read that goes to the network fails once (ReadTimeout: nothing is lost on the wire; ReadError: the
    connection is gone). Whatever the caller gets - before the failure and, after a timeout, by reading again - must start with the d leading bytes."""
    kind, d, m, sync = case["kind"], case["d"], case["m"], case["sync"]
    if case["fault"] == "request-write-error":
        return execute_request_write_error(case)

    def once(fault):
        cfg = NetConfig(default_plan=_plan(kind, d), plans={"n1": {}})
        world = World(peer_factory=cfg.peer_factory, faults=[dict(fault)] if fault else [])
        pool = build_pool(world, {}, sync=sync)
        sp = _spec(kind)
        res = {"got": b"", "errors": [], "exc": None, "head_reads": None}

        def reads_so_far():
            return sum(1 for op in world.trace if op["kind"] == "read")

        if sync:
            try:
                with pool.stream(sp["method"], sp["url"], headers=sp["headers"], extensions=dict(sp["ext"])) as resp:
                    ns = resp.extensions["network_stream"]
                    res["head_reads"] = reads_so_far()
                    ns.write(b"ping")
                    want = d + 5
                    for _ in range(8):
                        if len(res["got"]) >= want:
                            break
                        try:
                            data = ns.read(m)
                        except Exception as exc:
                            res["errors"].append(type(exc).__name__)
                            if type(exc).__name__ != "ReadTimeout":
                                break
                            continue
                        if not data:
                            break
                        res["got"] += data
            except BaseException as exc:
                res["exc"] = exc_info(exc)
            pool.close()
        else:
            async def go():
                try:
                    async with pool.stream(sp["method"], sp["url"], headers=sp["headers"], extensions=dict(sp["ext"])) as resp:
                        ns = resp.extensions["network_stream"]
                        res["head_reads"] = reads_so_far()
                        await ns.write(b"ping")
                        want = d + 5
                        for _ in range(8):
                            if len(res["got"]) >= want:
                                break
                            try:
                                data = await ns.read(m)
                            except Exception as exc:
                                res["errors"].append(type(exc).__name__)
                                if type(exc).__name__ != "ReadTimeout":
                                    break
                                continue
                            if not data:
                                break
                            res["got"] += data
                except BaseException as exc:
                    res["exc"] = exc_info(exc)
                await pool.aclose()

            run_async(go())
        return world, res

    _, ref = once(None)
    if ref["head_reads"] is None:
        return Outcome([V(P, "exception", f"{kind} d={d}: reference run failed: {ref['exc']}", handover=kind, mode="flaky")], ["flaky"], False)
    world, res = once({"kind": "read", "kind_index": ref["head_reads"], "fault": case["fault"]})
    exp = leading(d) + b"Eping"
    what = f"[{'sync' if sync else 'async'}] {kind} d={d} max_bytes={m}: the first network read after the hand-over fails with {case['fault']}"
    vio = []
    sig = dict(handover=kind, mode="flaky")
    if res["exc"] is not None:
        vio.append(V(P, "exception", f"{what}: {res['exc']['type']}: {res['exc']['msg']}", **sig))
    elif case["fault"] == "ReadTimeout" and res["got"] != exp:
        vio.append(V(P, "bytes-lost" if len(res["got"]) < len(exp) else "bytes-wrong", f"{what}; reading again the caller got {res['got']!r} in total, the server "
                     f"sent {exp!r} after the head (errors seen: {res['errors']})", **sig))
    elif case["fault"] == "ReadError" and not exp.startswith(res["got"]):
        vio.append(V(P, "bytes-wrong", f"{what}: the caller got {res['got']!r}, not a prefix of {exp!r}", **sig))
    elif case["fault"] == "ReadError" and len(res["got"]) < d and world.fired_faults:
        vio.append(V(P, "bytes-lost", f"{what}: only {res['got']!r} of the {d} leading bytes that had ALREADY arrived with the head were delivered before the error "
                     f"(errors seen: {res['errors']})", **sig))
    return Outcome(vio, ["flaky-live-read", "fault-" + case["fault"], "fired" if world.fired_faults else "not-fired"], bool(world.fired_faults),
                   info={"got": len(res["got"]), "errors": res["errors"]})

def execute_request_write_error(case) -> Outcome:
    """The write of the Upgrade / CONNECT request itself reports an error AFTER the bytes went out (httpcore suppresses a write error while sending
    and goes on to read the response); the server answers 101 / 2xx with d bytes behind the head in the same read. If the hand-over happens, the
    stream must still yield exactly those bytes."""
    kind, d, sync = case["kind"], case["d"], case["sync"]
    cfg = NetConfig(default_plan=_plan(kind, d, echo=False), plans={"n1": {}})
    world = World(peer_factory=cfg.peer_factory, faults=[{"kind": "write", "kind_index": 0, "fault": "WriteErrorAfterDelivery"}])
    pool = build_pool(world, {}, sync=sync)
    sp = _spec(kind)
    res = {"got": b"", "status": None, "exc": None}
    if sync:
        try:
            with pool.stream(sp["method"], sp["url"], headers=sp["headers"], extensions=dict(sp["ext"])) as resp:
                res["status"] = resp.status
                ns = resp.extensions.get("network_stream")
                while ns is not None and len(res["got"]) < d:
                    data = ns.read(65536)
                    if not data:
                        break
                    res["got"] += data
        except BaseException as exc:
            res["exc"] = exc_info(exc) if not isinstance(exc, HarnessHang) else {"type": "HANG", "name": "HANG", "msg": str(exc)}
        pool.close()
    else:
        async def go():
            try:
                async with pool.stream(sp["method"], sp["url"], headers=sp["headers"], extensions=dict(sp["ext"])) as resp:
                    res["status"] = resp.status
                    ns = resp.extensions.get("network_stream")
                    while ns is not None and len(res["got"]) < d:
                        data = await ns.read(65536)
                        if not data:
                            break
                        res["got"] += data
            except BaseException as exc:
                res["exc"] = exc_info(exc) if not isinstance(exc, HarnessHang) else {"type": "HANG", "name": "HANG", "msg": str(exc)}
            await pool.aclose()

        run_async(go())
    what = f"[{'sync' if sync else 'async'}] {kind} d={d}: the request's own write reports WriteError after the bytes went out, the server hands over"
    vio = []
    sig = dict(handover=kind, mode="flaky")
    handed_over = res["status"] is not None and (res["status"] == 101 or 200 <= res["status"] < 300)
    if handed_over and res["got"] != leading(d):
        lost = res["exc"]["msg"] if res["exc"] else ""
        vio.append(V(P, "bytes-lost", f"{what} (status {res['status']}): the stream yielded {res['got'][:20]!r} ({len(res['got'])} bytes) of the {d} bytes sent after the head {lost}", **sig))
    return Outcome(vio, ["flaky-live-read", "fault-request-write-error", "handed-over" if handed_over else "not-handed-over"], handed_over and bool(world.fired_faults),
                   info={"status": res["status"], "got": len(res["got"]), "exc": res["exc"] and res["exc"].get("name")})


# ----------------------------------------------------------------------------- tunnel proxy's own CONNECT

def run_tunnel(cuts, sync, proxy_headers, status=200):
    cfg = NetConfig(endpoints={"proxy.test:3128": {"role": "proxy"}}, proxy={"status": status, "headers": proxy_headers})
    world = World(peer_factory=cfg.peer_factory, cuts={0: cuts} if cuts else None)
    pool = build_pool(world, {"proxy": {"url": "http://proxy.test:3128"}}, sync=sync)
    from ..drivers import async_request, sync_request

    spec = {"method": "POST", "url": "https://a.test/t/tun0", "content": b"payload"}
    if sync:
        out = sync_request(pool, spec)
        out2 = sync_request(pool, {"method": "GET", "url": "https://a.test/t/tun1"})
        pool.close()
    else:
        async def go():
            o = await async_request(pool, spec)
            o2 = await async_request(pool, {"method": "GET", "url": "https://a.test/t/tun1"})
            await pool.aclose()
            return o, o2

        out, out2 = run_async(go())
    return world, out, out2


@st.composite
def tunnel_cases(draw):
    from .. import gen

    return {"headers": draw(gen.header_list(max_size=3)), "multicuts": draw(st.lists(st.lists(st.floats(0, 1, allow_nan=False, width=32),
                                                                                      min_size=1, max_size=5), max_size=3)),
            "sync": draw(st.booleans())}


def execute_tunnel(case) -> Outcome:
    vio = []
    world, out, out2 = run_tunnel(None, True, case["headers"])
    n = world.pipes[0].peer.exchanges[0]["resp_end"]
    runs = 1
    cutsets = [[c] for c in range(1, n)] + [sorted({max(1, min(n - 1, int(f * n))) for f in fr}) for fr in case["multicuts"]] + [list(range(1, n))]
    for cuts in cutsets:
        for sync in ((True, False) if len(cuts) != 1 or cuts[0] % 5 == 0 else (True,)):
            world, out, out2 = run_tunnel(cuts, sync, case["headers"])
            runs += 1
            what = f"[{'sync' if sync else 'async'}] CONNECT reply head cut at {cuts[:6]}{'...' if len(cuts) > 6 else ''}"
            for o, tok in ((out, "tun0"), (out2, "tun1")):
                if o["exc"] is not None:
                    vio.append(V(P, "tunnel-exception", f"{what}: {o['exc']['type']}: {o['exc']['msg']}", handover="tunnel"))
                elif o["status"] != 200 or o["body"] != body_bytes(tok, 12):
                    vio.append(V(P, "tunnel-wrong-response", f"{what}: status {o['status']} body {o['body'][:30]!r}", handover="tunnel"))
            exs = world.pipes[0].peer.all_exchanges()
            inner = [e for e in exs if e["token"] in ("tun0", "tun1")]
            if len(world.pipes) != 1 or len(inner) != 2 or any(e["tls_depth"] != 1 for e in inner):
                vio.append(V(P, "tunnel-shape", f"{what}: pipes={len(world.pipes)} tunnelled exchanges={len(inner)}", handover="tunnel"))
            elif inner[0]["body"] != b"payload":
                vio.append(V(P, "tunnel-body", f"{what}: body through the tunnel {inner[0]['body']!r}", handover="tunnel"))
            if vio:
                break
        if vio:
            break
    return Outcome(vio[:4], ["tunnel", f"reply-head-{n // 20 * 20}+"], True, info={"reply_head_bytes": n, "runs": runs},
                   metrics={"executions": runs})


RULE = ("enumerated layer: handover kind in {101 Upgrade, CONNECT answered 200, 201, 204, 299} x d in 0..6 post-head bytes x EVERY subset of cut positions from "
        "2 bytes before the end of the head to the end of the data x EVERY max_bytes sequence over {1,2,64} of length 1..3 (sync; an "
        "eighth also async). random layer: d up to 200 kB, drawn cuts (anywhere + near the head end), segment-size sequences, "
        "max_bytes 1..131072, client writes interleaved with reads (server echoes them as live data). tunnel layer: every single cut, "
        "drawn multi-cuts and byte-at-a-time delivery of the proxy's CONNECT reply head, then two origin requests through the tunnel. "
        "Non-trivial: head and data shared a read and some max_bytes was smaller than the leading data (enumerated: d>0 and no cut at "
        "the head end); distinct = distinct case.")

PROP = Prop(
    P, level="exploration", rule=RULE,
    layers=[
        Layer("enumerated", cases=enum_cases, execute=execute_enum),
        Layer("random", strategy=random_cases, execute=execute_random, budget={"quick": 2000, "thorough": 80000}),
        Layer("flaky-live-read", cases=flaky_cases, execute=execute_flaky),
        Layer("tunnel", strategy=tunnel_cases, execute=execute_tunnel, budget={"quick": 40, "thorough": 1200}),
        Layer("real-backends", strategy=__import__("vf.props.real", fromlist=["upgrade_scenarios"]).upgrade_scenarios,
              execute=__import__("vf.props.real", fromlist=["execute_upgrade"]).execute_upgrade, budget={"quick": 400, "thorough": 12000}),
    ],
    assumptions=["the peer echoes client writes as b'E'+data, which stands for 'the live connection's data'",
                 "reads are only issued while the harness-side model says bytes are pending (a real read would block otherwise)",
                 "no leading data is generated for the tunnel proxy's CONNECT (the TLS client speaks first)",
                 "layer real-backends: 101 Upgrade over real sockets through httpcore's own backends (plain, TLS, TLS-in-TLS, SOCKS, CONNECT), 0-70,000 bytes "
                 "right behind the head, then writes and reads on extensions['network_stream']; the peer answers with the swapped-case bytes (independent of how "
                 "the kernel / TLS cut them); the stream must yield exactly what was sent, the connection must not return to the pool and must be closed"],
    explanation="Bounded exhaustive for small sizes (layer enumerated: exhaustive over cut subsets and max_bytes sequences), sampled beyond.",
)
