"""C18 - sync and async APIs behave identically (translation validation).

Layer 'translation' (exhaustive): the repository's own translator (scripts/unasync.py: unasync_line) is applied
to every line of every file under httpcore/_async and compared with httpcore/_sync - full length both ways and
the same file set both ways (the script's own --check zips and therefore ignores a longer file).
Layer 'differential': single-caller scenarios are executed through the sync and the async pool against
identical peer scripts; op traces, responses, exception types and pool/connection states must agree.
"""
from __future__ import annotations

import importlib.util
import os

from ..common import REPO, Outcome, V
from ..prop import Layer, Prop

P = "C18"


def _translator():
    path = os.path.join(REPO, "scripts", "unasync.py")
    spec = importlib.util.spec_from_file_location("repo_unasync", path)
    mod = importlib.util.module_from_spec(spec)
    spec.loader.exec_module(mod)
    return mod.unasync_line


def file_cases(tier):
    a = os.path.join(REPO, "httpcore", "_async")
    s = os.path.join(REPO, "httpcore", "_sync")
    names = set()
    for base in (a, s):
        for dp, dn, fn in os.walk(base):
            for f in fn:
                if f.endswith(".py"):
                    names.add(os.path.relpath(os.path.join(dp, f), base))
    return [{"file": n} for n in sorted(names)]


def execute_file(case) -> Outcome:
    un = _translator()
    name = case["file"]
    ap = os.path.join(REPO, "httpcore", "_async", name)
    sp = os.path.join(REPO, "httpcore", "_sync", name)
    vio = []
    if not os.path.exists(ap) or not os.path.exists(sp):
        missing = "_async" if not os.path.exists(ap) else "_sync"
        vio.append(V(P, "file-set", f"{name} is missing under httpcore/{missing}", file=name))
        return Outcome(vio, ["missing-file"], True, info={"file": name}, metrics={"files": 1})
    with open(ap, newline="") as f:
        al = f.readlines()
    with open(sp, newline="") as f:
        sl = f.readlines()
    changed = 0
    for i in range(max(len(al), len(sl))):
        a_line = al[i] if i < len(al) else None
        s_line = sl[i] if i < len(sl) else None
        exp = un(a_line) if a_line is not None else None
        if a_line is not None and exp != a_line:
            changed += 1
        if exp != s_line:
            vio.append(V(P, "translation", f"{name}:{i + 1}: sync line {s_line!r} is not the translation {exp!r} of async line {a_line!r}",
                         file=name))
            if len(vio) >= 3:
                break
    return Outcome(vio, ["file"], True, info={"file": name, "lines": len(al), "lines_changed_by_translation": changed},
                   metrics={"files": 1, "lines": max(len(al), len(sl)), "lines_changed_by_translation": changed})


def extra(tier, cov):
    m = cov.get("metrics", {})
    return {"programs": m.get("files", 0) + m.get("diff_pairs", 0),
            "disagreements_checked": m.get("lines", 0) + m.get("diff_comparisons", 0)}


LAYERS = [Layer("translation", cases=file_cases, execute=execute_file)]

RULE = ("translation layer: every file of httpcore/_async and httpcore/_sync (union of both file sets), every line, "
        "compared with the output of the repository's own unasync_line. differential layer: generated single-caller "
        "scenarios (requests, server plans, faults, proxies) run through both variants; non-trivial = a scenario with >= 2 "
        "requests, a fault or a proxy.")

PROP = Prop(
    P, level="translation_validation", rule=RULE, layers=LAYERS,
    assumptions=["scripts/unasync.py from the working tree is the reference translator (a legitimate change to its rule table "
                 "plus a regenerated _sync stays green)",
                 "hand-written pairs outside _async/_sync (_synchronization.py, _backends) are covered only by the behavioural differential"],
    explanation="programs = files compared + scenario pairs executed; disagreements_checked = lines compared + field comparisons",
    extra_coverage=extra,
    workers={"quick": 4, "thorough": 8},
)


# ----------------------------------------------------------------------------- behavioural differential (sync vs async)

from hypothesis import strategies as st  # noqa: E402

from .. import gen  # noqa: E402
from ..drivers import async_request, build_pool, norm_name, run_async, sync_request  # noqa: E402
from ..simnet import World  # noqa: E402
from ..topo import KINDS, is_h2, topo  # noqa: E402

DIFF_KINDS = [k for k in KINDS]


@st.composite
def diff_scenarios(draw):
    kind = draw(st.sampled_from(DIFF_KINDS))
    h2 = is_h2(kind)
    n = draw(st.integers(1, 3))
    reqs = []
    plans = {}
    for i in range(n):
        tok = f"d{i}"
        body = draw(st.sampled_from([None, None, b"bytes-body", {"chunks": [b"it", b"", b"er"]}]))
        reqs.append({"tok": tok, "method": "GET" if body is None else draw(st.sampled_from(["POST", "PUT"])), "body": body,
                     "api": draw(st.sampled_from(["request", "request", "stream"])), "read": draw(st.sampled_from(["all", "all", 1, 0])),
                     "host": draw(st.sampled_from(["a.test", "a.test", "b.test"])),
                     "then": draw(st.sampled_from([None, None, None, "read", "iter"])), "trace": draw(st.sampled_from([False, False, True])),
                     "timeouts": draw(st.sampled_from([None, None, {"connect": 1.0, "read": 2.0, "write": 3.0, "pool": 0}]))})
        plans[tok] = draw(gen.h2_plans() if h2 else gen.h1_plans())
    seg = draw(st.sampled_from([None, None, [1], [7, 100], [3]]))
    if seg is not None and min(seg) < 50:
        # keep one case cheap by construction: one-byte reads only together with small, lightly padded bodies
        for p in plans.values():
            p["body_len"] = min(p.get("body_len", 0), 300)
            if p.get("h2_pad", 0) > 7:
                p["h2_pad"] = 7
    return {"kind": kind, "requests": reqs, "plans": plans, "retries": draw(st.sampled_from([0, 0, 2])),
            "max_connections": draw(st.sampled_from([10, 1, 2])), "max_keepalive": draw(st.sampled_from([None, None, 0, 1])),
            "faults": [{"at": draw(st.integers(0, 30)), "fault": draw(st.sampled_from(["error", "timeout", "eof"]))} for _ in range(draw(st.sampled_from([0, 0, 1, 2])))],
            "seg": seg}


def _one(sc, sync, runtime="asyncio"):
    extra = {"max_connections": sc["max_connections"], "retries": sc["retries"]}
    if sc["max_keepalive"] is not None:
        extra["max_keepalive_connections"] = sc["max_keepalive"]
    pool_cfg, cfg, scheme = topo(sc["kind"], plans=sc["plans"], pool_extra=extra)
    world = World(peer_factory=cfg.peer_factory, faults=[dict(f) for f in sc["faults"]], seg=sc["seg"])
    pool = build_pool(world, pool_cfg, sync=sync)
    outs = []
    states = []

    def snap():
        states.append(norm_name(repr(pool)) + " | " + ", ".join(norm_name(repr(c)) for c in pool.connections))

    specs = []
    for r in sc["requests"]:
        spec = {"method": r["method"], "url": f"{scheme}://{r['host']}/t/{r['tok']}", "api": r["api"], "read": r["read"], "timeouts": r["timeouts"], "then": r.get("then")}
        if r["body"] is not None:
            spec["content"] = r["body"]
        if r.get("trace") and (r["api"] == "request" or r["read"] == "all") and not r.get("then"):
            # (only for responses that are read to the end: when a body iterator is abandoned, the moment at which the runtime finalises the
            # generator - and with it the last 'failed' trace event - is the garbage collector's business, not the library's)
            spec["trace_log"] = []
        specs.append(spec)
    if sync:
        for s in specs:
            o = sync_request(pool, s)
            o.pop("network_stream", None)
            o["trace"] = list(s.get("trace_log") or [])
            outs.append(o)
            snap()
        pool.close()
        snap()
    else:
        async def go():
            for s in specs:
                o = await async_request(pool, s)
                o.pop("network_stream", None)
                o["trace"] = list(s.get("trace_log") or [])
                outs.append(o)
                snap()
            await pool.aclose()
            snap()

        if runtime == "trio":
            from ..drivers import run_trio_inline

            _, hang = run_trio_inline(go, world.clock)
            if hang:
                outs.append({"exc": {"type": "HANG", "name": "HANG", "documented": False, "msg": "blocked for ever under trio", "inner": None, "base": False}})
        else:
            run_async(go())
    trace = []
    for op in world.trace:
        trace.append((op["kind"], op["pipe"], op.get("timeout"), op.get("data"), op.get("max_bytes"), op.get("n"), op.get("exc"), op.get("host"),
                      op.get("port"), op.get("server_hostname"), tuple(op["alpn"]) if op.get("alpn") else None, op.get("seconds")))
    return outs, states, trace


def execute_diff(sc) -> Outcome:
    so, ss, st_ = _one(sc, True)
    vio = []
    comparisons = 0
    for label, runtime in (("async", "asyncio"), ("async-on-trio", "trio")):
        ao, as_, at = _one(sc, False, runtime)
        v, n = _compare(sc, label, so, ss, st_, ao, as_, at)
        vio += v
        comparisons += n
    fired = any(o["exc"] for o in so)
    tags = [sc["kind"]] + (["fault"] if sc["faults"] else []) + (["multi-request"] if len(sc["requests"]) > 1 else [])
    nontrivial = len(sc["requests"]) >= 2 or bool(sc["faults"]) or sc["kind"].split("-")[0] in ("forward", "tunnel", "socks")
    return Outcome(vio[:4], tags, nontrivial, info={"ops": len(st_), "outcomes": [(o.get("status") or o["exc"]["name"]) for o in so]},
                   metrics={"diff_pairs": 2, "diff_comparisons": comparisons})


def _compare(sc, label, so, ss, st_, ao, as_, at):
    vio = []
    comparisons = 0
    what = f"{sc['kind']} requests={[(r['method'], r['api'], r['read']) for r in sc['requests']]} faults={sc['faults']} seg={sc['seg']}"
    if len(so) != len(ao):
        vio.append(V(P, "diff-exception", f"{what}: sync performed {len(so)} requests, {label} {len(ao)}", conn=sc["kind"], variant=label))
    for i, (a, b) in enumerate(zip(so, ao)):
        comparisons += 1
        ea = a["exc"] and a["exc"]["name"]
        eb = b["exc"] and b["exc"]["name"]
        if ea != eb:
            vio.append(V(P, "diff-exception", f"{what}: request {i}: sync raised {a['exc'] and a['exc']['type']}, {label} raised {b['exc'] and b['exc']['type']}", conn=sc["kind"], variant=label))
        elif [t.replace("_async", "").replace("_sync", "") for t in a.get("trace", [])] != [t.replace("_async", "").replace("_sync", "") for t in b.get("trace", [])]:
            ta, tb = a.get("trace", []), b.get("trace", [])
            k = next((x for x in range(min(len(ta), len(tb))) if ta[x] != tb[x]), min(len(ta), len(tb)))
            vio.append(V(P, "diff-trace", f"{what}: request {i}: the trace extension saw different events: sync #{k} {ta[k] if k < len(ta) else None!r} vs {label} "
                         f"{tb[k] if k < len(tb) else None!r} ({len(ta)} vs {len(tb)} events)", conn=sc["kind"], variant=label))
        elif ea is None and (a["status"], a["headers"], a["body"], a.get("http_version"), a.get("reason")) != (b["status"], b["headers"], b["body"], b.get("http_version"), b.get("reason")):
            vio.append(V(P, "diff-response", f"{what}: request {i}: sync and {label} responses differ: {a['status']}/{len(a['body'])}B vs {b['status']}/{len(b['body'])}B", conn=sc["kind"], variant=label))
    for i, (a, b) in enumerate(zip(ss, as_)):
        comparisons += 1
        if a != b:
            vio.append(V(P, "diff-state", f"{what}: after step {i}: sync pool state {a!r}, {label} pool state {b!r}", conn=sc["kind"], variant=label))
            break
    comparisons += max(len(st_), len(at))
    if st_ != at:
        j = next((k for k in range(min(len(st_), len(at))) if st_[k] != at[k]), min(len(st_), len(at)))
        vio.append(V(P, "diff-wire", f"{what}: network op #{j} differs: sync {st_[j] if j < len(st_) else None!r} vs {label} {at[j] if j < len(at) else None!r} "
                     f"({len(st_)} vs {len(at)} ops)", conn=sc["kind"], variant=label))
    return vio, comparisons


LAYERS.append(Layer("differential", strategy=diff_scenarios, execute=execute_diff, budget={"quick": 2400, "thorough": 80000}))
from .real import diff_scenarios as _real_diff_scenarios, execute_diff as _real_execute_diff  # noqa: E402

LAYERS.append(Layer("real-backends", strategy=_real_diff_scenarios, execute=_real_execute_diff, budget={"quick": 160, "thorough": 5000}))
PROP.layers = LAYERS
