"""C18 - sync and async APIs behave identically (translation validation).

Layer 'translation' (exhaustive): the repository's own translator (scripts/unasync.py: unasync_line) is applied
to every line of every file under httpcore/_async and compared with httpcore/_sync - full length both ways and
the same file set both ways (the script's own --check zips and therefore ignores a longer file).
Layer 'differential': single-caller scenarios are executed through the sync and the async pool against
identical peer scripts; op traces, responses, exception types and pool/connection states must agree.
"""
from __future__ import annotations

import importlib.util
import os

from ..common import REPO, Outcome, V
from ..prop import Layer, Prop

P = "C18"


def _translator():
    path = os.path.join(REPO, "scripts", "unasync.py")
    spec = importlib.util.spec_from_file_location("repo_unasync", path)
    mod = importlib.util.module_from_spec(spec)
    spec.loader.exec_module(mod)
    return mod.unasync_line


def file_cases(tier):
    a = os.path.join(REPO, "httpcore", "_async")
    s = os.path.join(REPO, "httpcore", "_sync")
    names = set()
    for base in (a, s):
        for dp, dn, fn in os.walk(base):
            for f in fn:
                if f.endswith(".py"):
                    names.add(os.path.relpath(os.path.join(dp, f), base))
    return [{"file": n} for n in sorted(names)]


def execute_file(case) -> Outcome:
    un = _translator()
    name = case["file"]
    ap = os.path.join(REPO, "httpcore", "_async", name)
    sp = os.path.join(REPO, "httpcore", "_sync", name)
    vio = []
    if not os.path.exists(ap) or not os.path.exists(sp):
        missing = "_async" if not os.path.exists(ap) else "_sync"
        vio.append(V(P, "file-set", f"{name} is missing under httpcore/{missing}", file=name))
        return Outcome(vio, ["missing-file"], True, info={"file": name}, metrics={"files": 1})
    with open(ap, newline="") as f:
        al = f.readlines()
    with open(sp, newline="") as f:
        sl = f.readlines()
    changed = 0
    for i in range(max(len(al), len(sl))):
        a_line = al[i] if i < len(al) else None
        s_line = sl[i] if i < len(sl) else None
        exp = un(a_line) if a_line is not None else None
        if a_line is not None and exp != a_line:
            changed += 1
        if exp != s_line:
            vio.append(V(P, "translation", f"{name}:{i + 1}: sync line {s_line!r} is not the translation {exp!r} of async line {a_line!r}",
                         file=name))
            if len(vio) >= 3:
                break
    return Outcome(vio, ["file"], True, info={"file": name, "lines": len(al), "lines_changed_by_translation": changed},
                   metrics={"files": 1, "lines": max(len(al), len(sl)), "lines_changed_by_translation": changed})


def extra(tier, cov):
    m = cov.get("metrics", {})
    return {"programs": m.get("files", 0) + m.get("diff_pairs", 0),
            "disagreements_checked": m.get("lines", 0) + m.get("diff_comparisons", 0)}


LAYERS = [Layer("translation", cases=file_cases, execute=execute_file)]

RULE = ("translation layer: every file of httpcore/_async and httpcore/_sync (union of both file sets), every line, "
        "compared with the output of the repository's own unasync_line. differential layer: generated single-caller "
        "scenarios (requests, server plans, faults, proxies) run through both variants; non-trivial = a scenario with >= 2 "
        "requests, a fault or a proxy.")

PROP = Prop(
    P, level="translation_validation", rule=RULE, layers=LAYERS,
    assumptions=["scripts/unasync.py from the working tree is the reference translator (a legitimate change to its rule table "
                 "plus a regenerated _sync stays green)",
                 "hand-written pairs outside _async/_sync (_synchronization.py, _backends) are covered only by the behavioural differential"],
    explanation="programs = files compared + scenario pairs executed; disagreements_checked = lines compared + field comparisons",
    extra_coverage=extra,
    workers={"quick": 4, "thorough": 8},
)
