"""C19 - URL, origin and default-header semantics.

Oracle: an own RFC 3986 splitter (appendix B regular expression + authority splitting), not urllib.
Cases are URLs assembled from RFC 3986 productions plus header containers and content kinds.
"""
from __future__ import annotations

import ipaddress
import re

from hypothesis import strategies as st

from ..common import Outcome, V, import_httpcore
from ..prop import Layer, Prop

httpcore = import_httpcore()

P = "C19"
DEFAULT_PORT = {"http": 80, "https": 443, "ws": 80, "wss": 443}

# ----------------------------------------------------------------------------- reference splitter

_RFC3986_B = re.compile(rb"^(([^:/?#]+):)?(//([^/?#]*))?([^?#]*)(\?([^#]*))?(#(.*))?$", re.S)


def ref_split(url: bytes):
    """RFC 3986 appendix B + section 3.2 authority splitting. Returns dict of components (bytes/None)."""
    m = _RFC3986_B.match(url)
    scheme, authority, path, query, fragment = m.group(2), m.group(4), m.group(5), m.group(7), m.group(9)
    userinfo = host = port = None
    if authority is not None:
        rest = authority
        if b"@" in rest:
            userinfo, rest = rest.rsplit(b"@", 1)
        if rest.startswith(b"["):
            end = rest.index(b"]")
            host = rest[1:end]
            tail = rest[end + 1:]
            if tail.startswith(b":"):
                port = tail[1:]
        else:
            if b":" in rest:
                host, port = rest.rsplit(b":", 1)
            else:
                host = rest
    return {"scheme": scheme, "userinfo": userinfo, "host": host, "port": port, "path": path,
            "query": query, "fragment": fragment}


def ref_expected(url: bytes):
    c = ref_split(url)
    scheme = c["scheme"].lower()
    host = (c["host"] or b"").lower()
    port = int(c["port"]) if c["port"] else None
    target = (c["path"] or b"/") + (b"?" + c["query"] if c["query"] else b"")
    return scheme, host, port, target


def ref_host_header_parse(value: bytes):
    """Parse a Host header value (RFC 7230 5.4: uri-host [":" port]) -> (host-without-brackets, port|None)."""
    if value.startswith(b"["):
        end = value.find(b"]")
        if end < 0:
            return None
        host, tail = value[1:end], value[end + 1:]
        if tail == b"":
            return host, None
        if tail.startswith(b":") and tail[1:].isdigit():
            return host, int(tail[1:])
        return None
    if value.count(b":") > 1:
        return None  # an unbracketed IPv6 literal is not a well-formed uri-host
    if b":" in value:
        host, p = value.split(b":")
        if not p.isdigit():
            return None
        return host, int(p)
    return value, None


# ----------------------------------------------------------------------------- generators

UNRESERVED = "abcdefghijklmnopqrstuvwxyzABCDEFGHIJKLMNOPQRSTUVWXYZ0123456789-._~"
SUBDELIMS = "!$&'()*+,;="
HEX = "0123456789abcdefABCDEF"

pct = st.tuples(st.sampled_from(HEX), st.sampled_from(HEX)).map(lambda t: "%" + t[0] + t[1])


def chars(alphabet, min_size=0, max_size=8):
    return st.lists(st.one_of(st.sampled_from(alphabet), st.sampled_from(alphabet), pct),
                    min_size=min_size, max_size=max_size).map("".join)


segment_plain = chars(UNRESERVED + "!$&'()*+,=" + ":@", 0, 6)
param = chars(UNRESERVED + "=,", 0, 5)


@st.composite
def segments(draw):
    kind = draw(st.integers(0, 9))
    if kind == 0:
        return "."
    if kind == 1:
        return ".."
    seg = draw(segment_plain)
    if kind in (2, 3, 4):
        n = draw(st.integers(1, 2))
        for _ in range(n):
            seg += ";" + draw(param)
    return seg


label = st.text(alphabet="abcdefghijklmnopqrstuvwxyzABCDEFGHIJKLMNOPQRSTUVWXYZ0123456789-_", min_size=1, max_size=6)
regname = st.lists(label, min_size=1, max_size=3).map(".".join)
ipv4 = st.tuples(*[st.integers(0, 255)] * 4).map(lambda t: ".".join(map(str, t)))


@st.composite
def ipv6(draw):
    n = draw(st.one_of(st.sampled_from([0, 1, 2**128 - 1, 0xFE80 << 112 | 1, 0x20010DB8 << 96 | 0xABCD]),
                       st.integers(0, 2**128 - 1)))
    a = ipaddress.IPv6Address(n)
    s = draw(st.sampled_from([a.compressed, a.exploded]))
    if draw(st.booleans()):
        s = s.upper()
    return s


@st.composite
def url_parts(draw):
    scheme = draw(st.sampled_from(["http", "https", "ws", "wss"]))
    hk = draw(st.sampled_from(["reg", "reg", "reg", "ipv4", "ipv6", "ipv6"]))
    host = draw({"reg": regname, "ipv4": ipv4, "ipv6": ipv6()}[hk])
    userinfo = draw(st.one_of(st.none(), st.none(), chars(UNRESERVED + "!$&'()*+,=" + ":", 0, 6)))
    pk = draw(st.sampled_from(["none", "none", "empty", "default", "other", "other"]))
    if pk == "none":
        port = None
    elif pk == "empty":
        port = ""
    elif pk == "default":
        port = str(DEFAULT_PORT[scheme])
    else:
        port = str(draw(st.one_of(st.sampled_from([1, 80, 443, 8080, 8443, 65535]), st.integers(1, 65535))))
    segs = draw(st.lists(segments(), min_size=0, max_size=4))
    path = "".join("/" + s for s in segs)
    query = draw(st.one_of(st.none(), st.none(), chars(UNRESERVED + SUBDELIMS + ":@/?", 0, 8)))
    fragment = draw(st.one_of(st.none(), st.none(), chars(UNRESERVED + SUBDELIMS + ":@/?", 0, 5)))
    return {"scheme": scheme, "hk": hk, "host": host, "userinfo": userinfo, "port": port, "path": path,
            "query": query, "fragment": fragment}


def assemble(p, *, host=None, port="__same__", scheme=None) -> str:
    scheme = scheme or p["scheme"]
    host = host if host is not None else p["host"]
    port = p["port"] if port == "__same__" else port
    h = "[" + host + "]" if ":" in host else host
    s = scheme + "://"
    if p["userinfo"] is not None:
        s += p["userinfo"] + "@"
    s += h
    if port is not None:
        s += ":" + port
    s += p["path"]
    if p["query"] is not None:
        s += "?" + p["query"]
    if p["fragment"] is not None:
        s += "#" + p["fragment"]
    return s


header_name = st.text(alphabet="abcdefghijklmnopqrstuvwxyzABCDEFGHIJKLMNOPQRSTUVWXYZ0123456789-", min_size=1, max_size=8)
header_value = st.text(alphabet=UNRESERVED + " ;,=/", min_size=0, max_size=10)


@st.composite
def cases(draw):
    p = draw(url_parts())
    hdrs = draw(st.lists(st.tuples(header_name, header_value), max_size=5))
    if hdrs and draw(st.booleans()):  # force a duplicate name, possibly different case
        n, v = hdrs[draw(st.integers(0, len(hdrs) - 1))]
        hdrs.insert(draw(st.integers(0, len(hdrs))), [draw(st.sampled_from([n, n.upper(), n.lower()])), v + "2"])
    special = draw(st.sampled_from([None, None, None, "Host", "host", "Content-Length", "content-length",
                                    "Transfer-Encoding", "TRANSFER-ENCODING"]))
    if special:
        val = {"host": "override.example:81", "content-length": "3", "transfer-encoding": "chunked"}[special.lower()]
        hdrs.insert(draw(st.integers(0, len(hdrs))), [special, val])
    content = draw(st.sampled_from(["none", "bytes", "bytes0", "iter"]))
    as_kind = draw(st.sampled_from(["str", "bytes", "components"]))
    hdr_kind = draw(st.sampled_from(["list-str", "list-bytes", "list-mixed", "dict"]))
    # second URL differing from the first in exactly one origin component (or only in spelling)
    variant = draw(st.sampled_from(["same", "explicit-default", "other-port", "other-scheme", "other-host",
                                    "case-host", "scheme-sibling"]))
    other_host = draw(regname)
    other_port = draw(st.integers(1, 65535))
    nonascii = draw(st.text(alphabet="é漢ßÿĀ", min_size=1, max_size=3))
    nonascii_where = draw(st.sampled_from(["url", "method", "header-name", "header-value", "host-component",
                                           "target-component"]))
    return {"parts": p, "headers": [list(h) for h in hdrs], "content": content, "as": as_kind,
            "hdr_kind": hdr_kind, "variant": variant, "other_host": other_host, "other_port": other_port,
            "nonascii": nonascii, "nonascii_where": nonascii_where}


# ----------------------------------------------------------------------------- system under test access

class _Capture(httpcore.ConnectionInterface):
    """Public extension point: .request() builds the Request (default headers) and hands it to us."""

    def __init__(self):
        self.seen = None

    def handle_request(self, request):
        self.seen = request
        return httpcore.Response(200, content=b"")


def effective_port(scheme: bytes, port):
    return port if port is not None else DEFAULT_PORT[scheme.decode()]


def execute(case) -> Outcome:
    p = case["parts"]
    vio = []
    tags = []
    url_s = assemble(p)
    url_b = url_s.encode("ascii")
    exp_scheme, exp_host, exp_port, exp_target = ref_expected(url_b)

    feats = {
        "params": ";" in p["path"], "query": bool(p["query"]), "empty-query": p["query"] == "",
        "fragment": p["fragment"] is not None, "userinfo": p["userinfo"] is not None, "ipv6": p["hk"] == "ipv6",
        "port": bool(p["port"]), "empty-port": p["port"] == "", "upper-host": p["host"] != p["host"].lower(),
        "dot-segments": "/." in p["path"], "pct": "%" in p["path"], "empty-path": p["path"] == "",
        "last-seg-params": ";" in p["path"].rsplit("/", 1)[-1],
    }
    tags += [k for k, v in feats.items() if v]
    nontrivial = any(feats[k] for k in ("params", "query", "fragment", "userinfo", "ipv6", "port", "upper-host"))

    def sigfeat():
        for k in ("last-seg-params", "ipv6", "userinfo", "empty-port", "fragment", "empty-query", "upper-host"):
            if feats[k]:
                return k
        return "plain"

    # ---- law 1: component splitting (str, bytes, explicit components)
    try:
        if case["as"] == "str":
            u = httpcore.URL(url_s)
        elif case["as"] == "bytes":
            u = httpcore.URL(url_b)
        else:
            u = httpcore.URL(scheme=exp_scheme.decode(), host=exp_host, port=exp_port, target=exp_target.decode())
    except Exception as exc:
        vio.append(V(P, "parse-raises", f"URL({url_s!r}) raised {type(exc).__name__}: {exc}", feature=sigfeat(),
                     exc=type(exc).__name__))
        return Outcome(vio, tags, nontrivial, info={"url": url_s})
    got = (u.scheme, u.host, u.port, u.target)
    for name, g, e in zip(("scheme", "host", "port", "target"), got, (exp_scheme, exp_host, exp_port, exp_target)):
        if g != e or type(g) is not type(e):
            vio.append(V(P, "split", f"URL({url_s!r}).{name} == {g!r}, RFC 3986 splitting gives {e!r}",
                         component=name, feature=sigfeat() if name != "target" else (
                             "last-seg-params" if feats["last-seg-params"] else sigfeat())))

    # ---- law 2: origin equality iff scheme, host and effective port are equal
    v = case["variant"]
    q = dict(p)
    if v == "same":
        url2 = assemble(p)
    elif v == "explicit-default":
        url2 = assemble(p, port=str(DEFAULT_PORT[p["scheme"]]) if not p["port"] else p["port"])
    elif v == "other-port":
        url2 = assemble(p, port=str(case["other_port"]))
    elif v == "other-scheme":
        url2 = assemble(p, scheme={"http": "https", "https": "http", "ws": "wss", "wss": "ws"}[p["scheme"]])
    elif v == "scheme-sibling":
        url2 = assemble(p, scheme={"http": "ws", "https": "wss", "ws": "http", "wss": "https"}[p["scheme"]])
    elif v == "other-host":
        url2 = assemble(p, host=case["other_host"])
    else:
        url2 = assemble(p, host=p["host"].swapcase())
    tags.append("pair-" + v)
    e2 = ref_expected(url2.encode())
    try:
        o1 = u.origin
        u2 = httpcore.URL(url2)
        o2 = u2.origin
        same_expected = (exp_scheme == e2[0] and exp_host == e2[1]
                         and effective_port(exp_scheme, exp_port) == effective_port(e2[0], e2[2]))
        same_got = (o1 == o2)
        if same_expected != same_got:
            vio.append(V(P, "origin-law", f"origin({url_s!r}) == origin({url2!r}) is {same_got}, expected {same_expected}",
                         variant=v))
        if (o1.scheme, o1.host, o1.port) != (exp_scheme, exp_host, effective_port(exp_scheme, exp_port)):
            vio.append(V(P, "origin-value", f"origin of {url_s!r} is {(o1.scheme, o1.host, o1.port)!r}", feature=sigfeat()))
    except Exception as exc:
        vio.append(V(P, "origin-raises", f"origin of {url_s!r}/{url2!r} raised {type(exc).__name__}: {exc}",
                     exc=type(exc).__name__))

    # ---- law 3: serialising parses back to an equal URL
    try:
        ser = bytes(u)
        back = httpcore.URL(ser)
        if not (back == u):
            vio.append(V(P, "round-trip", f"URL(bytes(u)) != u for u=URL({url_s!r}): bytes(u)={ser!r} -> {back!r} vs {u!r}",
                         feature="ipv6" if feats["ipv6"] else sigfeat()))
    except Exception as exc:
        vio.append(V(P, "round-trip", f"URL(bytes(URL({url_s!r}))) raised {type(exc).__name__}: {exc}",
                     feature="ipv6" if feats["ipv6"] else sigfeat()))

    # ---- law 4: text arguments must be ASCII
    bad = case["nonascii"]
    w = case["nonascii_where"]
    try:
        if w == "url":
            httpcore.URL(url_s + bad)
        elif w == "method":
            httpcore.Request("GE" + bad, url_s)
        elif w == "header-name":
            httpcore.Request("GET", url_s, headers=[("x-" + bad, "v")])
        elif w == "header-value":
            httpcore.Request("GET", url_s, headers={"x-a": "v" + bad})
        elif w == "host-component":
            httpcore.URL(scheme="http", host="h" + bad, port=None, target="/")
        else:
            httpcore.URL(scheme="http", host="h", port=None, target="/" + bad)
        vio.append(V(P, "non-ascii-accepted", f"non-ASCII text in {w} was accepted", where=w))
    except TypeError:
        pass
    except Exception as exc:
        vio.append(V(P, "non-ascii-wrong-error", f"non-ASCII text in {w} raised {type(exc).__name__}, expected TypeError",
                     where=w))
    tags.append("nonascii-" + w)

    # ---- laws 5-7: header container semantics and synthesised defaults, through the public request() API
    hdrs = case["headers"]
    hk = case["hdr_kind"]
    if hk == "list-str":
        arg = [(n, val) for n, val in hdrs]
    elif hk == "list-bytes":
        arg = [(n.encode(), val.encode()) for n, val in hdrs]
    elif hk == "list-mixed":
        arg = [((n.encode(), val) if i % 2 else (n, val.encode())) for i, (n, val) in enumerate(hdrs)]
    else:
        arg = {}
        for n, val in hdrs:
            arg[n] = val
    if hk == "dict":
        exp_hdrs = [(n.encode(), val.encode()) for n, val in arg.items()]
    else:
        exp_hdrs = [(n.encode(), val.encode()) for n, val in hdrs]
    ck = case["content"]
    content = {"none": None, "bytes": b"abc", "bytes0": b"", "iter": iter([b"a", b"", b"bc"])}[ck]
    tags.append("content-" + ck)
    tags.append("hdr-" + hk)
    cap = _Capture()
    try:
        cap.request("GET", u, headers=arg, content=content)
        got_h = list(cap.seen.headers)
    except Exception as exc:
        vio.append(V(P, "request-raises", f"request() to {url_s!r} raised {type(exc).__name__}: {exc}",
                     exc=type(exc).__name__))
        got_h = None
    if got_h is not None:
        names = [n.lower() for n, _ in exp_hdrs]
        expected = list(exp_hdrs)
        if b"host" not in names:
            hv = (b"[" + exp_host + b"]") if b":" in exp_host else exp_host
            if exp_port is not None and exp_port != DEFAULT_PORT[exp_scheme.decode()]:
                hv += b":%d" % exp_port
            expected = [(b"Host", hv)] + expected
        if ck != "none" and b"content-length" not in names and b"transfer-encoding" not in names:
            if ck == "iter":
                expected = expected + [(b"Transfer-Encoding", b"chunked")]
            else:
                expected = expected + [(b"Content-Length", b"3" if ck == "bytes" else b"0")]
        # caller's headers: order, case and duplicates preserved
        caller_part = [h for h in got_h]
        if b"host" not in names and caller_part and caller_part[0][0].lower() == b"host":
            synth_host = caller_part.pop(0)
        else:
            synth_host = None
        if caller_part[:len(exp_hdrs)] != exp_hdrs:
            vio.append(V(P, "headers-order", f"header list {arg!r} became {got_h!r}", hdr_kind=hk))
        extra = caller_part[len(exp_hdrs):]
        exp_extra = expected[(1 if b"host" not in names else 0) + len(exp_hdrs):]
        if [(n.lower(), val) for n, val in extra] != [(n.lower(), val) for n, val in exp_extra]:
            vio.append(V(P, "content-defaults", f"content={ck} headers={hdrs!r}: synthesised {extra!r}, expected {exp_extra!r}",
                         content=ck))
        if b"host" not in names:
            if synth_host is None:
                vio.append(V(P, "host-missing", f"no Host header synthesised at the front for {url_s!r}: {got_h!r}"))
            else:
                parsed = ref_host_header_parse(synth_host[1])
                want = (exp_host, exp_port if exp_port != DEFAULT_PORT[exp_scheme.decode()] else None)
                if parsed is None:
                    vio.append(V(P, "host-malformed", f"Host header {synth_host[1]!r} for {url_s!r} is not uri-host[:port]",
                                 feature="ipv6" if feats["ipv6"] else sigfeat()))
                elif (parsed[0].lower(), parsed[1]) != want:
                    vio.append(V(P, "host-value", f"Host header {synth_host[1]!r} for {url_s!r} parses to {parsed!r}, expected {want!r}",
                                 feature="ipv6" if feats["ipv6"] else sigfeat(),
                                 port_kind="default" if exp_port == DEFAULT_PORT[exp_scheme.decode()] else
                                 ("none" if exp_port is None else "other")))
        elif [h for h in got_h if h[0].lower() == b"host"] != [h for h in exp_hdrs if h[0].lower() == b"host"]:
            vio.append(V(P, "host-duplicated", f"caller supplied Host but headers became {got_h!r}"))

    # ---- law 8: defaults are computed per request, also when the caller re-uses one header list object for several requests
    shared = [(b"Host", b"shared.example"), (b"X-K", b"v")] if case["hdr_kind"] != "dict" else [(b"X-K", b"v")]
    before = list(shared)
    try:
        c1, c2 = _Capture(), _Capture()
        c1.request("POST", u, headers=shared, content=b"abc")
        c2.request("POST", u, headers=shared, content=iter([b"defgh"]) if case["content"] in ("iter", "none") else b"defgh")
        second = [(n.lower(), v) for n, v in c2.seen.headers if n.lower() in (b"content-length", b"transfer-encoding")]
        want2 = [(b"transfer-encoding", b"chunked")] if case["content"] in ("iter", "none") else [(b"content-length", b"5")]
        if second != want2:
            vio.append(V(P, "content-defaults-reused-list", f"second request with the same header list object: framing headers {second!r}, expected {want2!r}"))
        if shared != before:
            vio.append(V(P, "caller-headers-mutated", f"the caller's header list was changed by request(): {before!r} -> {shared!r}"))
    except Exception as exc:
        vio.append(V(P, "request-raises", f"re-using a header list object raised {type(exc).__name__}: {exc}", exc=type(exc).__name__))

    # ---- law 9: the origin follows the URL's components: a URL object whose public scheme / host / port attributes are reassigned (a caller that
    #      re-targets one URL object) has the origin of a URL built from those components, also when its origin had been read before
    try:
        u3 = httpcore.URL(url_s)
        u4 = httpcore.URL(url2)
        first = u3.origin
        u3.scheme, u3.host, u3.port = u4.scheme, u4.host, u4.port
        if not (u3.origin == u4.origin) or (u3.origin.scheme, u3.origin.host, u3.origin.port) != (u4.origin.scheme, u4.origin.host, u4.origin.port):
            vio.append(V(P, "origin-stale", f"URL({url_s!r}) with scheme/host/port reassigned to those of {url2!r} (after its origin {first!r} had been read) "
                         f"has origin {u3.origin!r}, expected {u4.origin!r}", variant=v))
    except Exception as exc:
        vio.append(V(P, "origin-raises", f"reassigning the components of URL({url_s!r}) raised {type(exc).__name__}: {exc}", exc=type(exc).__name__))

    return Outcome(vio, tags, nontrivial, info={"url": url_s, "parsed": [x if not isinstance(x, bytes) else x.decode() for x in got]})


RULE = ("URLs are assembled from RFC 3986 productions (scheme in http/https/ws/wss; optional userinfo; reg-name with "
        "mixed case, IPv4 or bracketed IPv6 host; port absent/empty/default/other 1..65535; 0-4 path segments with "
        "';' parameters on any segment, dot segments and percent escapes; optional (possibly empty) query and fragment), "
        "given as str, bytes or explicit components, paired with a second URL differing in exactly one origin component, "
        "a header container (list of str/bytes/mixed pairs or dict, with forced duplicates and optional caller "
        "Host/Content-Length/Transfer-Encoding) and a content kind (None, bytes, empty bytes, iterator). "
        "Law 9: a URL object whose scheme / host / port attributes are reassigned to those of the second URL has that URL's origin. "
        "A case is non-trivial if the URL has params, a non-empty query, a fragment, userinfo, an IPv6 host, an explicit "
        "port or an upper-case host letter; distinct = distinct generated case.")

PROP = Prop(
    P, level="exploration", rule=RULE,
    layers=[Layer("urls", strategy=cases, execute=execute, budget={"quick": 24000, "thorough": 800000})],
    assumptions=["own RFC 3986 appendix-B splitter and Host parser are the reference (about 40 lines, in vf/props/c19.py)",
                 "port 0 and ports > 65535 are outside the generated domain",
                 "default-header logic is observed through the public ConnectionInterface.request() entry point"],
    explanation="Pure-function laws: component splitting vs an own RFC 3986 splitter, origin equality law on pairs "
                "differing in one component, bytes() round trip, ASCII-only text, header order/duplicates, Host and "
                "Content-Length/Transfer-Encoding synthesis.",
)
