"""C20 - connection retries are bounded and limited to establishment (fault enumeration).

Domain: retries N in 0..4 x {TCP, Unix socket} x {plain, TLS} x outcome sequences (a run of retryable
failures followed by one terminal outcome) x optional fault during the exchange after establishment.
Oracle: a small reference model of the retry law gives the expected connect/start_tls/sleep op list and the
expected exception exactly. Both the sync and the async pool are run for every case.
"""
from __future__ import annotations

import itertools

from hypothesis import strategies as st

from ..common import Outcome, V
from ..drivers import async_request, build_pool, run_async, sync_request
from ..peers.endpoints import NetConfig
from ..prop import Layer, Prop
from ..simnet import World

P = "C20"
RETRYABLE = ("ConnectError", "ConnectTimeout")
OTHERS = ("ReadError", "WriteTimeout", "Undocumented", "Interrupt", "ConnectionResetError", "SSLCertVerificationError")
DELAYS = [0, 0.5, 1, 2, 4, 8, 16]


def outcomes_for(tls: bool, kinds):
    outs = [f"connect:{k}" for k in kinds]
    if tls:
        outs += [f"tls:{k}" for k in kinds]
    return outs


def model(case):
    """Reference retry law -> (expected [op...], expected exception name or None)."""
    ops = []
    retries_left = case["retries"]
    di = 0
    attempts = list(case["attempts"]) + ["ok"] * 8
    for out in attempts:
        ops.append("connect")
        if out == "ok":
            fail = None
            if case["tls"]:
                ops.append("start_tls")
        else:
            stage, fail = out.split(":")
            if stage == "tls":
                ops.append("start_tls")
        if fail is None:
            return ops, None
        if fail in RETRYABLE:
            if retries_left <= 0:
                return ops, fail
            retries_left -= 1
            ops.append(("sleep", DELAYS[di]))
            di += 1
            continue
        return ops, fail
    raise AssertionError("unreachable")


def fault_plan(case):
    faults = []
    ci = ti = 0
    for out in case["attempts"]:
        if out == "ok":
            ci += 1
            if case["tls"]:
                ti += 1
            break
        stage, exc = out.split(":")
        if stage == "connect":
            faults.append({"kind": "connect", "kind_index": ci, "fault": exc})
            ci += 1
        else:
            faults.append({"kind": "start_tls", "kind_index": ti, "fault": exc})
            ci += 1
            ti += 1
    ex = case.get("exchange")
    if ex:
        faults.append({"kind": ex[0], "kind_index": 0, "fault": ex[1]})
    return faults


def run_one(case, sync: bool):
    cfg = NetConfig()
    world = World(peer_factory=cfg.peer_factory, faults=fault_plan(case))
    pool_cfg = {"retries": case["retries"]}
    if case["transport"] == "uds":
        pool_cfg["uds"] = "/run/sim.sock"
    url = ("https" if case["tls"] else "http") + "://a.test/t/t0"
    spec = {"method": "POST", "url": url, "content": b"hello"}
    if case.get("connect_timeout") is not None:
        # the retry law does not depend on the request's timeouts: pauses are 0, 0.5, 1, 2, ... whatever the connect timeout is
        spec["timeouts"] = {"connect": case["connect_timeout"], "read": 9.0}
    pool = build_pool(world, pool_cfg, sync=sync)
    if sync:
        out = sync_request(pool, spec)
        pool.close()
    else:
        async def go():
            o = await async_request(pool, spec)
            await pool.aclose()
            return o

        out = run_async(go())
    return world, out


def check(case, sync: bool):
    vio = []
    world, out = run_one(case, sync)
    exp_ops, exp_exc = model(case)
    variant = "sync" if sync else "async"
    est = [("sleep", o["seconds"]) if o["kind"] == "sleep" else o["kind"] for o in world.trace
           if o["kind"] in ("connect", "start_tls", "sleep")]
    got_ops = [list(x) if isinstance(x, tuple) else x for x in est]
    want_ops = [list(x) if isinstance(x, tuple) else x for x in exp_ops]
    got_exc = out["exc"]["name"] if out["exc"] else None
    n_attempts = sum(1 for o in got_ops if o == "connect")
    if got_ops != want_ops:
        if n_attempts > case["retries"] + 1:
            kind = "too-many-attempts"
        elif [o for o in got_ops if isinstance(o, list)] != [o for o in want_ops if isinstance(o, list)]:
            kind = "backoff"
        else:
            kind = "attempts"
        vio.append(V(P, kind, f"[{variant}] retries={case['retries']} attempts={case['attempts']} exchange={case.get('exchange')}: "
                     f"establishment ops {got_ops} but the retry law gives {want_ops}", variant=variant))
    if exp_exc is not None:
        if got_exc != exp_exc:
            vio.append(V(P, "wrong-exception", f"[{variant}] retries={case['retries']} attempts={case['attempts']}: caller got "
                         f"{got_exc}, expected {exp_exc}", variant=variant, expected=exp_exc))
    else:
        ex = case.get("exchange")
        if ex:
            if got_exc is None:
                vio.append(V(P, "exchange-failure-masked", f"[{variant}] {ex} after establishment did not reach the caller "
                             f"(status {out.get('status')})", variant=variant))
            # any connect after the establishment that succeeded is a retry of a post-establishment failure
        else:
            if got_exc is not None:
                vio.append(V(P, "unexpected-exception", f"[{variant}] no terminal failure planned but caller got {out['exc']}",
                             variant=variant))
            elif out["status"] != 200:
                vio.append(V(P, "bad-response", f"[{variant}] status {out.get('status')}", variant=variant))
    # writes only after establishment succeeded
    if exp_exc is not None and any(o["kind"] == "write" and o["data"] for o in world.trace):
        vio.append(V(P, "write-before-establishment", f"[{variant}] request bytes written although establishment failed",
                     variant=variant))
    return vio, got_ops, got_exc


def execute(case) -> Outcome:
    vio = []
    info = {}
    for sync in (True, False):
        v, ops, exc = check(case, sync)
        vio += v
        info["sync" if sync else "async"] = {"ops": ops, "exc": exc}
    att = case["attempts"]
    n_retry = 0
    for a in att:
        if a != "ok" and a.split(":")[1] in RETRYABLE:
            n_retry += 1
        else:
            break
    terminal = att[n_retry] if n_retry < len(att) else "ok"
    tags = [f"N={case['retries']}", case["transport"], "tls" if case["tls"] else "plain", f"run={n_retry}"]
    if any(a.startswith("tls:") for a in att):
        tags.append("tls-stage-failure")
    if terminal != "ok" and terminal.split(":")[1] not in RETRYABLE:
        tags.append("terminal-" + terminal.split(":")[1])
    if case.get("exchange"):
        tags.append("exchange-fault")
    if n_retry > case["retries"]:
        tags.append("retries-exhausted")
    nontrivial = n_retry >= 1 or any(a.startswith("tls:") for a in att) or bool(case.get("exchange"))
    return Outcome(vio, tags, nontrivial, info=info)


EXCHANGE = [None, ["read", "ReadError"], ["read", "ReadTimeout"], ["read", "eof"], ["write", "WriteTimeout"],
            ["write", "WriteError"]]


def enumerate_cases(tier):
    """Every run of retryable outcomes (length 0..N+1) followed by one terminal outcome."""
    for n in range(0, 5):
        for transport in ("tcp", "uds"):
            for tls in (False, True):
                retry_outs = outcomes_for(tls, RETRYABLE)
                term_outs = ["ok"] + outcomes_for(tls, OTHERS)
                max_run = n + 1
                for run in range(0, max_run + 1):
                    for prefix in itertools.product(retry_outs, repeat=run):
                        if run == max_run:
                            # the (N+1)-th retryable failure is itself terminal; what follows is never consumed
                            yield {"retries": n, "transport": transport, "tls": tls, "attempts": list(prefix) + ["ok"],
                                   "exchange": None}
                            continue
                        for term in term_outs:
                            if term == "ok":
                                for ex in (EXCHANGE if (tier == "thorough" or len(prefix) <= 2) else EXCHANGE[:2]):
                                    yield {"retries": n, "transport": transport, "tls": tls,
                                           "attempts": list(prefix) + ["ok"], "exchange": ex}
                            else:
                                yield {"retries": n, "transport": transport, "tls": tls,
                                       "attempts": list(prefix) + [term], "exchange": None}


@st.composite
def random_cases(draw):
    n = draw(st.integers(0, 4))
    tls = draw(st.booleans())
    outs = ["ok"] + outcomes_for(tls, RETRYABLE) * 3 + outcomes_for(tls, OTHERS)
    attempts = draw(st.lists(st.sampled_from(outs), min_size=n + 2, max_size=n + 2))
    return {"retries": n, "transport": draw(st.sampled_from(["tcp", "uds"])), "tls": tls, "attempts": attempts,
            "exchange": draw(st.sampled_from(EXCHANGE)), "connect_timeout": draw(st.sampled_from([None, 0.3, 0.6, 1.0, 7.0]))}


def _quick_cases(tier):
    # the request's connect timeout rotates through absent / shorter than every pause / longer than every pause
    for i, case in enumerate(enumerate_cases(tier)):
        case["connect_timeout"] = (None, 0.3, 7.0)[i % 3]
        yield case


RULE = ("retries N in 0..4 x {tcp, unix socket} x {plain, TLS} x outcome sequence of length <= N+2 over {ok, ConnectError, "
        "ConnectTimeout, ReadError, WriteTimeout, undocumented Exception, BaseException, ConnectionResetError, ssl.SSLCertVerificationError} at the connect or TLS stage "
        "(enumerated as: every run of retryable outcomes followed by every terminal outcome) x fault during the exchange "
        "after establishment; each case runs the sync and the async pool. Non-trivial: at least one retry, or a TLS-stage "
        "failure, or an exchange fault; distinct = distinct case.")

PROP = Prop(
    P, level="fault_enumeration", rule=RULE,
    layers=[
        Layer("enumerated", cases=_quick_cases, execute=execute),
        Layer("random", strategy=random_cases, execute=execute, budget={"quick": 1500, "thorough": 20000}),
    ],
    assumptions=["the retry law reference model (vf/props/c20.py: model) is the oracle",
                 "SimNet backend replaces the real sockets; sleep() is recorded and advances a virtual clock",
                 "proxied connections are outside this property (direct TCP / Unix socket only)"],
    explanation="Layer 'enumerated' is complete for the stated finite domain (N<=4; thorough: all exchange faults on every "
                "run, quick: all exchange faults on runs of <= 2 retries, two on longer ones); layer 'random' samples "
                "arbitrary outcome sequences, including ones with outcomes after the terminal one.",
)
