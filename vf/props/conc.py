"""Shared engine for the schedule-quantified pool properties C01 (no cross-talk), C04 (connection limit) and
C07 (waiters make progress): Hypothesis-generated concurrent histories on the harness-scheduled asyncio driver.

One execution evaluates all three oracles; each property module reports only its own.
"""
from __future__ import annotations

from hypothesis import strategies as st

from ..aio import AioRun, Caller
from ..common import Outcome, V
from ..peers.h1 import norm_plan, response_body
from ..simnet import World
from ..topo import KINDS, is_h2, topo
from .c05 import owned_pipes

KIND_LIST = ["direct-h1", "direct-h1", "direct-tls-h1", "direct-h2", "direct-h2", "direct-h2-fallback-h1", "prior-h2", "forward", "tunnel-h1",
             "tunnel-h2", "socks-h1", "socks-auth-tls-h2"]
HOSTS = ["a.test", "b.test", "c.test"]


@st.composite
def plans(draw, h2):
    big = draw(st.integers(0, 9)) == 0
    n = draw(st.sampled_from([70000, 140000])) if big else draw(st.integers(0, 300))
    p = {"status": draw(st.sampled_from([200, 200, 200, 404, 204, 500])), "body_len": n}
    if not h2:
        p["framing"] = draw(st.sampled_from(["cl", "cl", "chunked", "close"]))
        p["version"] = draw(st.sampled_from(["1.1", "1.1", "1.1", "1.0"]))
        if p["version"] == "1.0" and p["framing"] == "chunked":
            p["framing"] = "cl"
        p["conn_close"] = draw(st.sampled_from([False, False, False, True]))
        p["interim"] = draw(st.sampled_from([[], [], [], [100], [103, 103]])) if p["version"] == "1.1" else []
        if draw(st.integers(0, 5)) == 0:
            p["respond_at"] = "head"  # a server that answers as soon as it has the request head (e.g. rejects an upload early) and goes on reading
        if p["framing"] == "close" or p["conn_close"] or p["version"] == "1.0":
            # over TLS the server may end the stream with close_notify alone and keep the TCP connection until the client answers
            p["close_notify_only"] = draw(st.booleans())
        if p["framing"] == "chunked":
            p["chunks"] = [draw(st.integers(1, 50 if not big else 20000)) for _ in range(2)]
            if big:
                p["chunks"] = [max(c, 2000) for c in p["chunks"]]
    else:
        p["h2_frames"] = [draw(st.integers(1, 40) if not big else st.integers(4000, 16384)) for _ in range(2)]
        p["interim"] = draw(st.sampled_from([[], [], [103]]))
    return p


@st.composite
def h2_multi_connection_scenarios(draw):
    """Several HTTP/2 connections (one per origin) carrying overlapping exchanges; well-behaved network."""
    sc = draw(scenarios(kinds=["direct-h2", "direct-h2", "prior-h2", "tunnel-h2"], max_callers=5, limits=(3, 3, 4)))
    sc["n_origins"] = draw(st.sampled_from([2, 2, 3]))
    k = 0
    for c in sc["callers"]:
        for step in c["program"]:
            step["origin"] = k % sc["n_origins"]
            k += 1
            if step["mode"] == "hold":
                step["mode"] = "read_all"
    sc["faults"] = []
    sc["cancel"] = None
    sc.pop("h2_script", None)
    return sc


@st.composite
def goaway_scenarios(draw):
    """HTTP/2 only, small limits, always a (truthful) GOAWAY from the peer and at least one caller that holds its response open."""
    sc = draw(scenarios(kinds=["direct-h2", "direct-h2", "prior-h2", "tunnel-h2", "socks-auth-tls-h2"], max_callers=4, limits=(1, 1, 2)))
    act = draw(st.sampled_from([{"goaway": {"last": "below"}}, {"goaway": {"last": "below"}}, {"goaway": {"last": "equal"}}, {"goaway": {"last": "zero"}}]))
    sc["h2_script"] = [{"when": {"event": draw(st.sampled_from(["headers", "headers", "data", "request_complete", "response_sent"])), "n": draw(st.integers(0, 3))}, "do": [act]}]
    sc["callers"][0]["program"][0]["mode"] = "hold"
    sc["n_origins"] = min(sc["n_origins"], 2)
    for c in sc["callers"]:
        for step in c["program"]:
            step["origin"] = step["origin"] % sc["n_origins"]
    return sc


@st.composite
def scenarios(draw, kinds=None, max_callers=4, limits=(1, 1, 2, 2, 3)):
    kind = draw(st.sampled_from(kinds or KIND_LIST))
    h2 = is_h2(kind)
    n_callers = draw(st.integers(2, max_callers))
    n_origins = draw(st.integers(1, 3))
    callers = []
    server_plans = {}
    tok_i = 0
    for ci in range(n_callers):
        prog = []
        for _ in range(draw(st.integers(1, 3))):
            tok = f"t{tok_i}"
            tok_i += 1
            mode = draw(st.sampled_from(["read_all", "read_all", "read_all", "read1", "read2", "close_unread", "hold"]))
            step = {"tok": tok, "origin": draw(st.integers(0, n_origins - 1)), "mode": mode,
                    "method": draw(st.sampled_from(["GET", "GET", "POST", "HEAD"])),
                    "pool_timeout": draw(st.sampled_from([None, None, None, 1.0, 5.0]))}
            if step["method"] == "POST":
                step["body"] = draw(st.sampled_from(["bytes", "iter"]))
            prog.append(step)
            server_plans[tok] = draw(plans(h2))
        callers.append({"program": prog})
    sc = {"kind": kind, "n_origins": n_origins, "max_connections": draw(st.sampled_from(list(limits))),
          "max_keepalive": draw(st.sampled_from([None, None, 0, 1])), "keepalive_expiry": draw(st.sampled_from([None, None, None, 0.0, 0.4])),
          "callers": callers, "plans": server_plans,
          "choices": draw(st.lists(st.integers(0, 11), max_size=60)),
          "segs": draw(st.lists(st.sampled_from([0, 0, 1, 2, 7, 50, 1000]), max_size=5)),
          "dsegs": draw(st.lists(st.sampled_from([0, 0, 0, 1, 20, 60, 300, 5000]), max_size=4)),
          "faults": [], "cancel": None, "server_closes": draw(st.sampled_from([0, 0, 0, 1, 2])), "retries": draw(st.sampled_from([0, 0, 0, 1, 2])),
          "runtime": draw(st.sampled_from(["asyncio", "asyncio", "trio"])),
          "late": draw(st.sampled_from([[], [], [], [1], [0, 1], [0, 0, 0, 1]])),
          "bursts": draw(st.sampled_from([[], [], [], [1], [0, 1], [2, 0, 1], [0, 0, 3, 1]]))}
    if h2 and draw(st.integers(0, 2)) == 0:
        # scripted HTTP/2 peer actions (truthful GOAWAYs, resets, PING, raising the stream limit)
        script = []
        for _ in range(draw(st.integers(1, 2))):
            act = draw(st.sampled_from([{"goaway": {"last": "below"}}, {"goaway": {"last": "equal"}}, {"goaway": {"last": "zero"}}, {"goaway": {"last": "below", "close": True}},
                                        {"rst": {"sid": "last"}}, {"rst": {"sid": "first"}}, {"ping": True}, {"settings": {"3": 100}}]))
            script.append({"when": {"event": draw(st.sampled_from(["headers", "data", "request_complete", "response_sent"])), "n": draw(st.integers(0, 4))}, "do": [act]})
        sc["h2_script"] = script
    for _ in range(draw(st.sampled_from([0, 0, 1, 1, 2]))):
        sc["faults"].append({"at": draw(st.integers(0, 60)), "fault": draw(st.sampled_from(["error", "error", "timeout", "eof"]))})
    if sc["retries"] and draw(st.booleans()):
        # connection attempts that fail and are retried (the pool's retries setting): other callers use the pool during the back-off pause
        for k in range(draw(st.integers(1, 2))):
            sc["faults"].append({"kind": "connect", "kind_index": draw(st.integers(0, 3)), "fault": draw(st.sampled_from(["ConnectError", "ConnectTimeout"]))})
    if draw(st.integers(0, 2)) == 0:
        sc["cancel"] = {"caller": draw(st.integers(0, n_callers - 1)), "style": draw(st.sampled_from(["task", "scope", "scope"])),
                        "at": draw(st.integers(1, 60))}
        if draw(st.integers(0, 2)) == 0:
            # cancelled at the moment another task hands this caller's queued request a connection (wake-up issued, the caller has not run yet)
            del sc["cancel"]["at"]
            sc["cancel"]["on_assign"] = draw(st.sampled_from([1, 1, 1, 2]))
        if sc["runtime"] == "trio":
            sc["cancel"]["style"] = "scope"  # trio has no one-shot task cancellation
    return sc


def build(sc):
    maxc = sc["max_connections"]
    extra = {"max_connections": maxc}
    if sc.get("retries"):
        extra["retries"] = sc["retries"]
    if sc.get("max_keepalive") is not None:
        extra["max_keepalive_connections"] = sc["max_keepalive"]
    if sc.get("keepalive_expiry") is not None:
        extra["keepalive_expiry"] = sc["keepalive_expiry"]  # 0: an idle connection has expired by the time anybody looks at it again
    h2cfg = {"script": [dict(x) for x in sc["h2_script"]]} if sc.get("h2_script") else None
    pool_cfg, cfg, scheme = topo(sc["kind"], plans=sc["plans"], pool_extra=extra, hosts=HOSTS, h2=h2cfg)
    world = World(peer_factory=cfg.peer_factory, faults=[dict(f) for f in sc["faults"]])
    callers = []
    for ci, c in enumerate(sc["callers"]):
        prog = []
        for step in c["program"]:
            host = HOSTS[step["origin"]]
            spec = {"method": step["method"], "url": f"{scheme}://{host}/t/{step['tok']}"}
            if step.get("body") == "bytes":
                spec["content"] = b"body-of-" + step["tok"].encode()
            elif step.get("body") == "iter":
                spec["content"] = {"chunks": [b"body-", b"", b"of-" + step["tok"].encode()]}
            if step.get("pool_timeout") is not None:
                spec["timeouts"] = {"pool": step["pool_timeout"]}
            mode = step["mode"]
            m = {"read_all": "read_all", "read1": {"read_chunks": 1}, "read2": {"read_chunks": 2}, "close_unread": "close_unread",
                 "hold": "hold"}[mode]
            prog.append({"spec": spec, "tok": step["tok"], "mode": m, "method": step["method"]})
        cancel = None
        if sc.get("cancel") and sc["cancel"]["caller"] == ci:
            cancel = {k: v for k, v in sc["cancel"].items() if k in ("style", "at", "on_assign")}
        callers.append(Caller(ci, prog, cancel=cancel))
    return world, pool_cfg, cfg, callers, scheme


class Monitor:
    """C04 oracle, evaluated after every SimNet op and at every quiescence."""

    def __init__(self, run_getter, maxc):
        self.get = run_getter
        self.maxc = maxc
        self.ever = {}  # id -> (connection object, first_seen_seq)
        self.left = {}  # id -> seq at which it was first seen missing from the pool
        self.violations = []
        self.max_conns = 0
        self.max_pipes = 0
        self.checks = 0
        self.was_queued = False
        self.events_while_queued = 0

    def check(self, where):
        run = self.get()
        pool = run.pool
        if pool is None:
            return
        world = run.world
        self.checks += 1
        conns = pool.connections
        cur = {id(c) for c in conns}
        for c in conns:
            if id(c) not in self.ever:
                self.ever[id(c)] = (c, world.seq)
            self.left.pop(id(c), None) if False else None
        for cid, (c, _) in self.ever.items():
            if cid not in cur and cid not in self.left:
                self.left[cid] = world.seq
        n = len(conns)
        self.max_conns = max(self.max_conns, n)
        if n > self.maxc and len(self.violations) < 3:
            self.violations.append(("pool-overshoot", f"{where}: pool holds {n} connections, max_connections={self.maxc}: "
                                    f"{[repr(c) for c in conns]}"))
        open_pipes = [p for p in world.pipes if p.open]
        if where == "at quiescence" and len(open_pipes) > self.maxc and len(self.violations) < 3:
            # at quiescence nothing is "being closed" any more: an evicted connection's stream is closed by then, so every open stream counts
            self.max_pipes = max(self.max_pipes, len(open_pipes))
            self.violations.append(("streams-overshoot", f"at quiescence {len(open_pipes)} network streams are open on behalf of the pool (pipes "
                                    f"{[p.id for p in open_pipes]} to {[p.target for p in open_pipes]}), max_connections={self.maxc}; pool: {pool!r} "
                                    f"{[repr(c) for c in pool.connections]}"))
        elif len(open_pipes) > self.maxc:
            # excuse pipes of connections that have already left the pool and carry no request bytes after that moment
            excused = set()
            for cid, seq_left in self.left.items():
                c = self.ever[cid][0]
                for pid in _pipes_of(c):
                    wrote_after = any(o["kind"] == "write" and o["data"] and o["pipe"] == pid and o["seq"] > seq_left for o in world.trace[-400:])
                    if not wrote_after:
                        excused.add(pid)
            counted = [p.id for p in open_pipes if p.id not in excused]
            self.max_pipes = max(self.max_pipes, len(counted))
            if len(counted) > self.maxc and len(self.violations) < 3:
                self.violations.append(("streams-overshoot", f"{where}: {len(counted)} network streams are open on behalf of the pool "
                                        f"(pipes {counted} to {[world.pipes[i].target for i in counted]}), max_connections={self.maxc}; "
                                        f"pool: {pool!r}"))
        else:
            self.max_pipes = max(self.max_pipes, len(open_pipes))


def _pipes_of(conn):
    class _P:
        connections = [conn]

    return owned_pipes(_P)


def queued_requests(pool):
    reqs = getattr(pool, "_requests", None)
    if reqs is None:
        return None
    out = []
    for r in list(reqs):
        try:
            if r.is_queued():
                out.append(r.request.url.origin)
        except Exception:
            return None
    return out


def serviceable(pool, origin, maxc):
    live = 0
    for c in pool.connections:
        try:
            if c.is_closed() or c.has_expired():
                continue
            live += 1
            if c.can_handle_request(origin) and c.is_available():
                return f"connection {c!r} is available for it"
            if c.is_idle():
                return f"idle connection {c!r} could be evicted"
        except Exception:
            continue
    if live < maxc:
        return f"only {live} live connections, max_connections={maxc}"
    return None


def expected_body(plan, tok, method):
    return response_body(norm_plan(plan), tok, method.encode())


def run_scenario(sc):
    if any(p.get("body_len", 0) > 5000 for p in sc["plans"].values()):
        # keep one case cheap: tiny read segments only together with small bodies
        sc = dict(sc)
        sc["segs"] = [s if s >= 500 else 0 for s in sc["segs"]]
        sc["dsegs"] = [s if s >= 500 else 0 for s in sc.get("dsegs", [])]
    world, pool_cfg, cfg, callers, scheme = build(sc)
    holder = {}
    mon = Monitor(lambda: holder["run"], sc["max_connections"])
    lost = []
    q_stats = {"waited": False, "queued_quiescences": 0}

    def on_q(run):
        mon.check("at quiescence")
        pool = run.pool
        qs = queued_requests(pool)
        if qs:
            q_stats["waited"] = True
            q_stats["queued_quiescences"] += 1
            for origin in qs:
                why = serviceable(pool, origin, sc["max_connections"])
                if why and len(lost) < 3:
                    lost.append(f"request for {origin} is still queued at quiescence although {why}; pool {pool!r}")

    async def epilogue(run):
        run.final_repr = repr(run.pool)
        world.faults = []
        await run.pool.aclose()

    from ..trio_run import make_run

    run = make_run(sc.get("runtime"))(world, pool_cfg, callers, choices=sc["choices"], segs=sc["segs"], dsegs=sc.get("dsegs", ()),
                                      allow_server_close=sc.get("server_closes", 0), on_quiescence=on_q, epilogue=epilogue, step_limit=6000,
                                      late=sc.get("late", ()), bursts=sc.get("bursts", ()))
    holder["run"] = run
    world.on_op = lambda op: mon.check(f"after op {op['seq']} ({op['kind']} on pipe {op['pipe']})")
    run.final_repr = None
    run.run()
    return run, world, callers, mon, lost, q_stats, cfg


def judge(sc, run, world, callers, mon, lost, q_stats):
    """-> dict property -> violations, plus tags / non-trivial flags."""
    v1, v4, v7, v12 = [], [], [], []
    kind = sc["kind"]
    fam = kind
    base = dict(conn=fam)
    disrupted = bool(world.fired_faults) or any(c.cancelled for c in callers)
    # ------------------------------------------------------------------ C01 content + wire
    for c in callers:
        for i, out in enumerate(c.results):
            step = c.program[i]
            tok = step["tok"]
            plan = sc["plans"][tok]
            if out["exc"] is not None:
                continue
            exp = expected_body(plan, tok, step["method"])
            want_status = norm_plan(plan)["status"]
            xt = [v for n, v in out["headers"] if n.lower() == b"x-tok"]
            if out["status"] != want_status or xt != [tok.encode()]:
                v1.append(V("C01", "wrong-response", f"caller {c.id} asked for {tok} and got status {out['status']} x-tok {xt} "
                            f"(expected {want_status}, {tok})", **base))
            elif out.get("partial"):
                if not exp.startswith(out["body"]):
                    v1.append(V("C01", "wrong-body", f"caller {c.id} {tok}: partial body {out['body'][:40]!r} is not a prefix of its own response", **base))
            elif (norm_plan(plan)["framing"] == "close" and not is_h2(kind) and exp.startswith(out["body"])
                  and any(f["fault"] == "eof" for f in world.fired_faults)):
                pass  # an injected EOF inside a close-delimited body: every prefix is a complete message by definition
            elif out["body"] != exp:
                v1.append(V("C01", "wrong-body", f"caller {c.id} {tok}: body of {len(out['body'])} bytes differs from the {len(exp)} bytes the server "
                            f"sent for it (starts {out['body'][:30]!r}, expected {exp[:30]!r})", **base))
    # an undisturbed run (no fault, no cancellation, no peer action, no server-side close): every request must succeed or time out in the pool
    undisturbed = not sc.get("faults") and not sc.get("cancel") and not sc.get("h2_script") and not sc.get("server_closes")
    if undisturbed:
        for c in callers:
            for i, out in enumerate(c.results):
                if out["exc"] is not None and out["exc"]["name"] != "PoolTimeout":
                    pid = "C12" if is_h2(kind) else "C01"
                    (v12 if pid == "C12" else v1).append(V(pid, "request-failed-undisturbed", f"{kind} max_connections={sc['max_connections']} keepalive={sc.get('max_keepalive')}: "
                                                           f"caller {c.id} request {c.program[i]['tok']} raised {out['exc']['type']}: {out['exc']['msg'][:160]} (in {out['exc'].get('inner')}) "
                                                           "although the server answers every request and nothing was injected: it failed because of what other requests did",
                                                           exc=out["exc"]["name"], site=out["exc"].get("inner"), **base))
    reuse_after_disruption = False
    multiplexed = False
    for p in world.pipes:
        leaf = p.peer.leaf()
        for msg in getattr(leaf, "wire_violations", []):
            v1.append(V("C01", "reused-unfinished-connection", f"pipe {p.id} ({kind}): {msg}", **base))
        for msg in (getattr(getattr(leaf, "h2", None), "errors", None) or []):
            v1.append(V("C01", "wire-desync", f"pipe {p.id} ({kind}): the HTTP/2 peer cannot decode what this client sent on the connection: {msg}", **base))
        for msg in getattr(leaf, "parse_errors", []):
            v1.append(V("C01", "wire-desync", f"pipe {p.id} ({kind}): the bytes written on this connection do not parse as a sequence of requests: {msg}", **base))
        exs = leaf.all_exchanges() if hasattr(leaf, "all_exchanges") else []
        if len(exs) >= 2:
            if getattr(leaf, "h2", None) is not None:
                if leaf.h2.max_open_seen >= 2:
                    multiplexed = True
            if disrupted or any(e.get("closes") for e in exs[:-1]):
                reuse_after_disruption = True
    if not is_h2(kind):
        # HTTP/1.1: once a read on a connection has returned the end of the stream the server is gone; a request written to it afterwards
        # means that a connection the client KNEW to be closed was handed to another request
        eof_seen = {}
        for op in world.trace:
            if op["kind"] == "read" and op.get("n") == 0 and op.get("exc") is None and not op.get("blocked"):
                eof_seen.setdefault(op["pipe"], op["seq"])
            elif op["kind"] == "write" and op.get("data") and op["pipe"] in eof_seen and op.get("exc") is None:
                p = world.pipes[op["pipe"]]
                if p.neg_written is None or op["w_off"] >= p.neg_written:
                    v1.append(V("C01", "reused-closed-connection", f"pipe {op['pipe']} ({kind}): request bytes {bytes(op['data'][:40])!r} were written at op {op['seq']} "
                                f"although a read on this connection had already returned the end of the stream at op {eof_seen[op['pipe']]} "
                                f"(the server ended it{' inside TLS only: close_notify, TCP still open' if p.eof_hidden else ''})", **base))
                    break
    early = any(s["mode"] in ("read1", "read2", "close_unread") for c in sc["callers"] for s in c["program"])
    # ------------------------------------------------------------------ C04
    for k, msg in mon.violations:
        v4.append(V("C04", k, f"{kind} max_connections={sc['max_connections']}: {msg}", **base))
    # ------------------------------------------------------------------ C07
    for msg in lost:
        v7.append(V("C07", "lost-wakeup", f"{kind} max_connections={sc['max_connections']}: {msg}", **base))
    if run.deadlock is not None:
        net_wait = bool(run.deadlock["parked"])
        v7.append(V("C07", "deadlock", f"{kind} max_connections={sc['max_connections']}: callers {run.deadlock['blocked']} are blocked for ever "
                    f"although the server answers every request (parked network ops: {run.deadlock['parked']}); pool {run.pool!r}",
                    waiting="network" if net_wait else "pool", **base))
    if run.overflow:
        v7.append(V("C07", "livelock", f"{kind}: {run.busy or 'scheduler step limit exceeded'}", **base))
    for c in callers:
        if c.error is not None:
            v7.append(V("C07", "caller-crashed", f"caller {c.id} ended with {c.error}", **base))
        if getattr(c, "spurious_cancel", None):
            pid = "C12" if is_h2(kind) else "C07"
            (v12 if pid == "C12" else v7).append(V(pid, "sibling-cancelled", f"{kind}: caller {c.id}, which nobody cancelled, ended with a cancellation ({c.spurious_cancel}): "
                                                  "another caller's cancellation was handed on to it instead of its own request running to completion", **base))
    tags = [kind, f"N={sc['max_connections']}", f"callers={len(callers)}", f"origins={sc['n_origins']}", "runtime-" + (sc.get("runtime") or "asyncio")]
    if world.fired_faults:
        tags.append("fault-fired")
    if any(c.cancelled for c in callers):
        tags.append("cancelled")
    if sc.get("h2_script"):
        tags.append("h2-peer-actions")
    if q_stats["waited"]:
        tags.append("queued")
    if multiplexed:
        tags.append("h2-multiplexed")
    if reuse_after_disruption:
        tags.append("reuse-after-disruption")
    if any(o.get("exc") and o["exc"]["name"] == "PoolTimeout" for c in callers for o in c.results):
        tags.append("pool-timeout")
    evictions = len(mon.left)
    if evictions:
        tags.append("connection-left-pool")
    nt = {"C01": (reuse_after_disruption and (early or disrupted)) or multiplexed,
          "C04": q_stats["waited"] and (evictions > 0 or disrupted),
          "C07": q_stats["waited"], "C12": multiplexed and evictions > 0}
    info = {"steps": run.steps, "pipes": len(world.pipes), "max_conns_seen": mon.max_conns, "max_open_streams_seen": mon.max_pipes,
            "final": run.final_repr, "outcomes": [[(o.get("status") or o["exc"]["name"]) for o in c.results] + (["cancelled"] if c.cancelled else [])
                                                  for c in callers]}
    return {"C01": v1, "C04": v4, "C07": v7, "C12": v12}, tags, nt, info


def poisoned_by_known(sc, run, callers):
    """Signature fragment shared with the C05 findings: a cancellation delivered at one of the known unsafe sites."""
    for c in callers:
        if c.cancel is not None and c.cancel_fired_at is not None:
            site = c.delivery_site or c.cancel_site
            return {"trigger": "cancel-" + c.cancel["style"], "site": site[0] if site else "outside-httpcore",
                    "in_shield": bool(c.in_shield_at_delivery if c.delivery_site is not None else c.in_shield_at_cancel),
                    "own_write_parked": own_write_parked(c)}
    return {}


def own_write_parked(c):
    """The cancelled caller had a network WRITE of its own in flight (parked at the harness gate) when the cancellation landed."""
    kind = getattr(c, "parked_kind_at_delivery", None) if c.delivery_site is not None else getattr(c, "parked_kind_at_cancel", None)
    return kind == "write"


def make_execute(prop_id):
    def execute(sc) -> Outcome:
        run, world, callers, mon, lost, q_stats, cfg = run_scenario(sc)
        vs, tags, nt, info = judge(sc, run, world, callers, mon, lost, q_stats)
        extra = poisoned_by_known(sc, run, callers)
        if sc.get("runtime") == "trio":
            extra = dict(extra, runtime="trio")
        vio = vs[prop_id]
        for v in vio:
            v["sig"].update(extra)
        return Outcome(vio[:5], tags, nt[prop_id], info=info, metrics={"monitor_checks": mon.checks, "quiescences": run.quiescences})
    return execute
