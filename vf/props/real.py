"""Real-backend layers: generated scenarios (connection kind x runtime variant x requests x server plans x one real-network fault) run
through httpcore's OWN network backends over loopback sockets against the peer models (vf/realnet.py). One run yields a record that
several properties judge:

  C02  fault-free: status / reason / version / headers / body equal the ground truth of the server plan; truncation never yields a
       framed body that is shorter than framed
  C06  after the pool has been closed every connection the server did not end itself has seen the client's close; no socket /
       transport is dropped unclosed (ResourceWarning)
  C15  a fault yields a documented httpcore exception whose class matches the cause (never ssl.SSLError, OSError, anyio / trio errors)
  C16  a peer that goes silent makes the operation fail with the matching *Timeout* class, not earlier than the configured value
  C18  the sync classes and the async classes (asyncio, trio, anyio-on-trio) give the same outcome for the same scenario
"""
from __future__ import annotations

import asyncio
import gc
import os
import time
import warnings

from hypothesis import strategies as st

from .. import gen
from ..common import Outcome, V, import_httpcore
from ..drivers import async_request, sync_request
from ..peers.h1 import norm_plan, truth_h1
from ..peers.h2 import truth_h2
from ..realnet import LONG, RealNet, client_ctx
from ..topo import KINDS, REFUSALS, is_h2, topo

httpcore = import_httpcore()

VARIANTS = ["sync", "asyncio", "trio", "anyio-trio"]
SHORT = 0.06
TLS_KINDS = [k for k, v in KINDS.items() if v[1] == "https" or "https-proxy" in k]
HOSTS = ("a.test", "b.test")


def port_for(scheme):
    return 8080 if scheme == "http" else 8443


def bound_cost(plan):
    """Keep one case cheap by construction: a big body is not sent as thousands of tiny chunks / DATA frames (each one is a TLS record, a segment
    and, for HTTP/2, an acknowledgement from the client)."""
    if plan.get("body_len", 0) > 4000:
        if "h2_frames" in plan:
            plan["h2_frames"] = [max(f, 1500) for f in plan["h2_frames"]]
        if "chunks" in plan:
            plan["chunks"] = [max(c, 1000) for c in plan["chunks"]]
    return plan


@st.composite
def real_scenarios(draw, with_faults=True, kinds=None, only=None, fault_share=7):
    kind = draw(st.sampled_from(kinds or list(KINDS)))
    h2 = is_h2(kind)
    n = draw(st.integers(1, 3))
    reqs, plans = [], {}
    for i in range(n):
        tok = f"r{i}"
        body = draw(st.sampled_from([None, None, "bytes", "iter", "big"]))
        reqs.append({"tok": tok, "method": "GET" if body is None else draw(st.sampled_from(["POST", "PUT"])), "body": body,
                     "api": draw(st.sampled_from(["request", "request", "stream"])), "host": draw(st.sampled_from(["a.test", "a.test", "b.test"]))})
        big = draw(st.integers(0, 7)) == 0
        plans[tok] = bound_cost(draw(gen.h2_plans(big=big) if h2 else gen.h1_plans(big=big)))
    uds = kind in ("direct-h1", "direct-tls-h1", "direct-h2", "prior-h2", "direct-h2-fallback-h1") and draw(st.integers(0, 3)) == 0
    if uds:
        for r in reqs:
            r["host"] = "a.test"  # with uds= every connection of the pool goes to the one UNIX socket
    sc = {"kind": kind, "variant": draw(st.sampled_from(VARIANTS)), "requests": reqs, "plans": plans, "uds": uds,
          "verify": draw(st.sampled_from(["none", "none", "ca"])), "fault": None, "ragged_close": draw(st.sampled_from([False, False, True]))}
    if with_faults and draw(st.integers(0, 9)) < fault_share:
        tls = kind in TLS_KINDS
        choices = ["truncate", "truncate", "reset", "reset", "stall", "stall", "refuse", "connect-stall", "read-stall"]
        if tls:
            choices += ["tls-garbage", "tls-garbage", "tls-alert", "tls-plain-http", "tls-close", "tls-stall", "untrusted"]
        if only:
            choices = [c for c in choices if c in only]
        fk = draw(st.sampled_from(choices))
        at = draw(st.one_of(st.integers(0, 40), st.integers(0, 400), st.integers(0, 3000), st.integers(0, 150000)))
        if fk in ("truncate", "reset", "stall", "tls-garbage"):
            sc["fault"] = {"pipe": draw(st.sampled_from([0, 0, 0, 1])), "kind": fk, "at": at}
            if fk == "truncate":
                sc["fault"]["ragged"] = draw(st.booleans())
        elif fk in ("refuse", "connect-stall"):
            sc["fault"] = {"connect": draw(st.sampled_from([0, 0, 1])), "kind": fk}
            sc["uds"] = False
        elif fk == "read-stall":
            sc["fault"] = {"pipe": 0, "kind": fk, "at": draw(st.sampled_from([0, 1, 100, 5000]))}
            sc["requests"][0].update(method="POST", body="huge")
        elif fk == "untrusted":
            sc["verify"] = "untrusted"
            sc["fault"] = {"kind": "untrusted"}
        else:
            sc["fault"] = {"tls": draw(st.sampled_from([0, 0, 1])), "kind": fk}
    return sc


@st.composite
def keepalive_scenarios(draw):
    """fault-free HTTP/1.1 over real sockets, 2-3 sequential requests; some responses are followed by a silent server-side close of the idle connection"""
    sc = draw(real_scenarios(with_faults=False, kinds=[k for k in KINDS if k not in REFUSALS and not is_h2(k)]))
    if len(sc["requests"]) < 2:
        sc["requests"].append(dict(sc["requests"][0], tok="r9"))
        sc["plans"]["r9"] = dict(sc["plans"][sc["requests"][0]["tok"]])
    for r in sc["requests"]:
        p = sc["plans"][r["tok"]]
        if draw(st.integers(0, 2)) == 0 and p.get("framing") != "close":
            p["idle_close"] = True
    return sc


@st.composite
def upload_scenarios(draw):
    """fault-free, every request carries a body: bytes / iterator / 60 kB / 3 MB (partial socket writes, TLS record splitting, HTTP/2 flow control)"""
    sc = draw(real_scenarios(with_faults=False, kinds=[k for k in KINDS if k not in REFUSALS]))
    for r in sc["requests"]:
        r["body"] = draw(st.sampled_from(["bytes", "iter", "big", "big", "huge"]))
        r["method"] = draw(st.sampled_from(["POST", "PUT"]))
    return sc


def timeouts_for(sc):
    f = sc.get("fault") or {}
    k = f.get("kind")
    t = {"connect": LONG, "read": LONG, "write": LONG, "pool": LONG}
    if k == "stall":
        # whatever the client does next waits for the silent peer: a read, a SOCKS negotiation step (connect timeout) or the TLS handshake inside a
        # tunnel whose CONNECT reply had just been completed (connect timeout)
        t["read"] = t["connect"] = SHORT
    elif k in ("tls-stall", "connect-stall"):
        t["connect"] = SHORT
    elif k == "read-stall":
        # a peer that no longer reads does not answer either: whatever step the client is in (CONNECT reply, TLS handshake inside a tunnel,
        # upload, HTTP/2 flow-control wait) runs into its own timeout
        t["write"] = t["read"] = t["connect"] = SHORT
    return t


def body_for(req):
    b = req["body"]
    tok = req["tok"].encode()
    if b is None:
        return None
    if b == "bytes":
        return b"body-of-" + tok
    if b == "iter":
        return {"chunks": [b"it-", b"", b"er-" + tok]}
    if b == "big":
        return (b"big-" + tok + b"-") * 9000  # ~60 kB
    return b"h" * (3 << 20)  # "huge": more than a shrunken socket buffer pair can absorb


def build_real_pool(pool_cfg, sync, verify, backend=None, small_buffers=False, uds=None):
    import socket

    cfg = dict(pool_cfg)
    proxy = None
    p = cfg.get("proxy")
    if p:
        auth = tuple(p["auth"]) if p.get("auth") else None
        headers = [tuple(h) for h in p["headers"]] if p.get("headers") else None
        pctx = client_ctx(verify) if str(p["url"]).startswith("https") else None
        proxy = httpcore.Proxy(url=p["url"], auth=auth, headers=headers, ssl_context=pctx)
    kw = dict(ssl_context=client_ctx(verify), proxy=proxy, max_connections=cfg.get("max_connections", 10), http1=cfg.get("http1", True),
              http2=cfg.get("http2", False), retries=0)
    if small_buffers:
        kw["socket_options"] = [(socket.SOL_SOCKET, socket.SO_SNDBUF, 8192)]
    if backend is not None:
        kw["network_backend"] = backend
    if uds is not None:
        kw["uds"] = uds
        kw.pop("socket_options", None)  # TCP-level options do not apply to a UNIX socket
    return (httpcore.ConnectionPool if sync else httpcore.AsyncConnectionPool)(**kw)


def run_real(sc, variant=None):
    """-> record: outcomes, wall times, ledger, server-side events."""
    variant = variant or sc["variant"]
    pool_cfg, cfg, scheme = topo(sc["kind"], plans=sc["plans"], hosts=HOSTS)
    port = port_for(scheme)
    tmo = timeouts_for(sc)
    specs = []
    for r in sc["requests"]:
        spec = {"method": r["method"], "url": f"{scheme}://{r['host']}:{port}/t/{r['tok']}", "api": r["api"], "read": "all", "timeouts": dict(tmo)}
        b = body_for(r)
        if b is not None:
            spec["content"] = b
        specs.append(spec)
    outs, times = [], []
    fault = dict(sc["fault"]) if sc.get("fault") and sc["fault"].get("kind") != "untrusted" else None
    # a small send buffer (a documented pool option) makes partial socket writes certain for the 3 MB uploads
    small = (bool(fault) and fault.get("kind") == "read-stall") or any(r["body"] == "huge" for r in sc["requests"])
    idle_close = any(p.get("idle_close") for p in sc["plans"].values())
    rec = {"variant": variant}
    with warnings.catch_warnings(record=True) as caught:
        warnings.simplefilter("always", ResourceWarning)
        with RealNet(cfg, fault) as net:
            net.ragged_close = bool(sc.get("ragged_close"))
            uds_path = None
            if sc.get("uds"):
                import tempfile

                uds_dir = tempfile.mkdtemp(prefix="vfuds")
                uds_path = os.path.join(uds_dir, "s")
                net.unix_listener(uds_path, f"a.test:{port}")
            if variant == "sync":
                pool = build_real_pool(pool_cfg, True, sc["verify"], small_buffers=small, uds=uds_path)
                for s in specs:
                    t0 = time.monotonic()
                    o = sync_request(pool, s)
                    times.append(time.monotonic() - t0)
                    o.pop("network_stream", None)
                    outs.append(o)
                    if idle_close:
                        net.wait_server_closes()
                pool.close()
                del pool
            else:
                async def go():
                    backend = httpcore.AnyIOBackend() if variant == "anyio-trio" else None
                    pool = build_real_pool(pool_cfg, False, sc["verify"], backend=backend, small_buffers=small, uds=uds_path)
                    for s in specs:
                        t0 = time.monotonic()
                        o = await async_request(pool, s)
                        times.append(time.monotonic() - t0)
                        o.pop("network_stream", None)
                        outs.append(o)
                        if idle_close:
                            net.wait_server_closes()  # (blocks the loop for a moment: nothing else runs in it)
                    await pool.aclose()

                if variant == "asyncio":
                    loop = asyncio.new_event_loop()
                    try:
                        loop.run_until_complete(go())
                        loop.run_until_complete(loop.shutdown_default_executor())
                    finally:
                        loop.close()
                else:
                    import trio

                    trio.run(go)
            rec["not_closed"] = net.wait_client_closed(3.0)
            rec["fired"] = list(net.fired)
            rec["pipes"] = [{"id": p.id, "target": p.target, "events": list(p.events), "tls": len(p.tls), "sent": len(p.sent), "written": len(p.written),
                             "reset": p.was_reset, "fault": p.fault_fired,
                             "tls_records": [{"sni": t["server_hostname"], "alpn": t["alpn"], "selected": t["selected"]} for t in p.tls],
                             "exchanges": [{"host": _host_of(ex), "tls_depth": ex.get("tls_depth"), "token": ex.get("token"), "complete": ex.get("complete"),
                                            "method": bytes(ex.get("method") or b""), "body": bytes(ex["body"]) if ex.get("body") is not None else None,
                                            "proxy_hop": bool(ex.get("proxy_hop"))}
                                           for ex in _exchanges(p) if ex.get("method") != b"CONNECT"]}
                            for p in net.pipes]
            rec["harness_errors"] = list(net.errors)
            rec["attempts"] = net.connect_attempts
        if uds_path is not None:
            import shutil

            shutil.rmtree(uds_dir, ignore_errors=True)
        gc.collect()
    # CPython's ssl.SSLSocket._create() detaches the plain socket first and can then raise (recv(1) on a connection that was reset meanwhile)
    # without closing the half-made SSLSocket: that descriptor is never visible to httpcore. Such objects lack the `_connected` attribute.
    rec["unclosed"] = [str(w.message)[:160] for w in caught if issubclass(w.category, ResourceWarning) and "unclosed" in str(w.message)
                       and not (type(getattr(w, "source", None)).__name__ == "SSLSocket" and not hasattr(w.source, "_connected"))]
    rec["outs"], rec["times"], rec["scheme"] = outs, times, scheme
    return rec


def _exchanges(p):
    try:
        leaf = p.peer.leaf()
        return leaf.all_exchanges() if hasattr(leaf, "all_exchanges") else []
    except Exception:  # pragma: no cover
        return []


def _host_of(ex):
    for n, v in ex.get("headers") or []:
        if bytes(n).lower() in (b"host", b":authority"):
            return bytes(v).decode("latin-1").rsplit(":", 1)[0] if b":" in bytes(v) else bytes(v).decode("latin-1")
    return None


ALLOWED = {
    "truncate": {"RemoteProtocolError", "ReadError", "WriteError", "ProxyError", "ConnectError"},
    # Python's ssl module reports a reset of a TLS connection as an end of stream (recv() -> b""), which the protocol layers rightly call
    # "server disconnected" (RemoteProtocolError)
    "reset": {"ReadError", "WriteError", "ConnectError", "ProxyError", "RemoteProtocolError"},
    "stall": {"ReadTimeout", "ConnectTimeout"},
    "garbage": {"RemoteProtocolError", "ProxyError", "ReadError", "WriteError"},
    "tls-garbage": {"ReadError", "WriteError"},
    "tls-alert": {"ConnectError"},
    "tls-plain-http": {"ConnectError"},
    "tls-close": {"ConnectError"},
    "tls-stall": {"ConnectTimeout"},
    "refuse": {"ConnectError"},
    "connect-stall": {"ConnectTimeout"},
    "untrusted": {"ConnectError"},
    "read-stall": {"WriteTimeout", "ReadTimeout", "ConnectTimeout"},
}


def truth(sc, req):
    plan = sc["plans"][req["tok"]]
    m = req["method"].encode()
    return truth_h2(plan, req["tok"], m) if is_h2(sc["kind"]) else truth_h1(plan, req["tok"], m)


def judge(sc, rec):
    """-> {prop: [violations]}, tags, fired"""
    kind = sc["kind"]
    v = {"C02": [], "C06": [], "C15": [], "C16": [], "C10": [], "C03": [], "C09": []}
    f = sc.get("fault") or {}
    fk = f.get("kind")
    fired = bool(rec["fired"]) or (fk == "untrusted" and kind in TLS_KINDS)
    h2 = is_h2(kind)
    base = dict(conn=kind, variant=rec["variant"], fault=fk or "none")
    what = f"[real {rec['variant']}] {kind} requests={[(r['method'], r['body'], r['api']) for r in sc['requests']]} verify={sc['verify']} fault={sc.get('fault')}"
    refusal = kind in REFUSALS
    tags_extra = []
    for i, (req, out) in enumerate(zip(sc["requests"], rec["outs"])):
        exc = out["exc"]
        if exc is None:
            tr = truth(sc, req)
            plan = norm_plan(sc["plans"][req["tok"]])
            close_delimited = (not h2) and plan["framing"] == "close"
            # a close-delimited body ends where the connection ends: every prefix is a complete message by definition (as in the simulated C02
            # layers); Python's ssl module reports a reset of a TLS connection as such an end
            ok_body = out["body"] == tr["body"] or (fired and fk in ("truncate", "reset") and close_delimited and tr["body"].startswith(out["body"]))
            if refusal:
                v["C02"].append(V("C02", "refusal-ignored", f"{what}: request {i} succeeded through a proxy that refuses every tunnel", **base))
            elif out["status"] != tr["status"] or out["headers"] != tr["headers"] or not ok_body:
                v["C02"].append(V("C02", "wrong-response", f"{what}: request {i}: got status {out['status']}, {len(out['body'])} body bytes, headers {out['headers'][:4]!r}; "
                                  f"the server sent status {tr['status']}, {len(tr['body'])} body bytes ({'HTTP/2' if h2 else plan['framing']} framing), headers {tr['headers'][:4]!r}", **base))
            elif not h2 and (out["http_version"] != tr["version"] or out["reason"] != tr["reason"]):
                v["C02"].append(V("C02", "wrong-response", f"{what}: request {i}: version/reason {out['http_version']!r} {out['reason']!r} != {tr['version']!r} {tr['reason']!r}", **base))
            continue
        name = exc["name"]
        if name == "HANG":
            v["C15"].append(V("C15", "hang", f"{what}: request {i}: {exc['msg']}", **base))
            continue
        if not exc["documented"]:
            v["C15"].append(V("C15", "undocumented-exception", f"{what}: request {i} raised {exc['type']}: {exc['msg']} (raised in {exc.get('inner')})",
                              exc=exc["type"], site=exc.get("inner"), **base))
            continue
        if refusal and name == "ProxyError" and not fired:
            continue
        if not fired:
            if rec["times"][i] >= LONG - 1.0 and name.endswith("Timeout"):
                continue  # the machine stood still for 20 s: inconclusive, not a verdict
            if name.endswith("Timeout") and SHORT in timeouts_for(sc).values():
                continue  # a 0.06 s timeout that was configured for the fault expired before the fault was reached (busy machine): inconclusive
            v["C15"].append(V("C15", "error-without-cause", f"{what}: request {i} raised {exc['type']}: {exc['msg']} although server and network behaved", exc=name, **base))
            v["C02"].append(V("C02", "exception", f"{what}: request {i}: a well-formed response raised {exc['type']}: {exc['msg']}", exc=name, **base))
            continue
        allowed = set(ALLOWED[fk])
        if fk == "tls-garbage" and any(p["fault"] and p["fault"].get("depth") == 0 for p in rec["pipes"]):
            allowed = set(ALLOWED["garbage"])  # no TLS session existed yet at that offset (CONNECT / SOCKS reply): plain malformed peer data
            if kind in TLS_KINDS:
                # ... and if the negotiation reply was complete at that offset, the bytes are read by the TLS handshake that follows it: a failed
                # handshake is a ConnectError (which of the two readers gets them is a matter of timing)
                allowed.add("ConnectError")
        if refusal:
            allowed.add("ProxyError")
        if kind.startswith("socks") and fk in ("stall", "truncate", "reset"):
            # httpcore parses each SOCKS5 reply from ONE read(): a reply cut short by the fault is reported as a malformed reply
            # (ProxyError). Whether a split-but-valid SOCKS reply should be reassembled is outside the listed properties (DESIGN 8.5).
            allowed.add("ProxyError")
        if name not in allowed and name.endswith("Timeout") and SHORT in timeouts_for(sc).values():
            # one of the 0.06 s limits configured for the fault expired in a step the fault did not touch (busy machine; e.g. a SOCKS negotiation
            # read under the short connect timeout): inconclusive, never a verdict
            tags_extra.append("inconclusive-other-short-timeout")
            continue
        if name not in allowed and fk in ("stall", "tls-stall", "connect-stall", "read-stall"):
            v["C16"].append(V("C16", "timeout-not-applied", f"{what}: request {i} raised {exc['type']}: {exc['msg'][:120]} after {rec['times'][i]:.2f}s; the peer had gone "
                              f"silent ('{fk}') and the configured timeout is {SHORT}s: the operation was not limited by it", exc=name, **base))
        if name not in allowed:
            v["C15"].append(V("C15", "wrong-class", f"{what}: request {i} raised {exc['type']}: {exc['msg']} (raised in {exc.get('inner')}); the cause was '{fk}' "
                              f"({rec['fired']}), for which {sorted(allowed)} are the matching classes", exc=name, site=exc.get("inner"), **base))
        if name.endswith("Timeout") and fk in ("stall", "tls-stall", "connect-stall", "read-stall", "tls-garbage") and rec["times"][i] < SHORT - 0.004:
            v["C16"].append(V("C16", "timeout-early", f"{what}: request {i} raised {name} after {rec['times'][i]:.4f}s, the configured timeout is {SHORT}s", **base))
        if name.endswith("Timeout") and fk in ("stall", "tls-stall", "connect-stall", "read-stall") and rec["times"][i] > SHORT + 5.0:
            v["C16"].append(V("C16", "timeout-late", f"{what}: request {i} raised {name} only after {rec['times'][i]:.2f}s, the configured timeout is {SHORT}s "
                              "(the limit was not applied to the operation; the peer gave up first)", **base))
    # a peer that went silent must have produced a timeout for the request it left unanswered (never a success of a later request on that stream)
    if fired and fk in ("stall", "tls-stall", "connect-stall") and not any(o["exc"] for o in rec["outs"]):
        unanswered = fk != "stall" or any(p["fault"] and p["sent"] < _needed(sc, rec, p) for p in rec["pipes"])
        if fk != "stall":
            v["C16"].append(V("C16", "timeout-not-applied", f"{what}: the peer never completed the {fk.split('-')[0]} step, yet every request succeeded", **base))
    # ---- keep-alive over real sockets (C09): a connection the server has closed while it was idle is never used again; without any close a
    # sequential caller reuses its connection
    if not fired and not refusal and not h2:
        closes_somewhere = False
        for i, (req, out) in enumerate(zip(sc["requests"], rec["outs"])):
            plan = norm_plan(sc["plans"][req["tok"]])
            prev = [norm_plan(sc["plans"][r["tok"]]) for r in sc["requests"][:i] if r["host"] == req["host"] or sc.get("uds")]
            if out["exc"] is not None and prev and prev[-1].get("idle_close") and not out["exc"]["name"].endswith("Timeout"):
                v["C09"].append(V("C09", "stale-connection-used", f"{what}: request {i} raised {out['exc']['type']}: {out['exc']['msg'][:120]}; the server had closed the idle "
                                  f"keep-alive connection (FIN delivered) before this request was made: it was handed a connection the server had already closed",
                                  exc=out["exc"]["name"], **base))
            if plan.get("idle_close") or plan["conn_close"] or plan["version"] == "1.0" or plan["framing"] == "close" or plan["status"] == 101:
                closes_somewhere = True
        if not closes_somewhere and all(o["exc"] is None for o in rec["outs"]):
            hosts_used = {"a.test"} if sc.get("uds") else {r["host"] for r in sc["requests"]}
            if len(rec["pipes"]) > len(hosts_used):
                v["C09"].append(V("C09", "no-reuse", f"{what}: {len(sc['requests'])} sequential requests to {sorted(hosts_used)} with keep-alive responses used "
                                  f"{len(rec['pipes'])} connections (to {[p['target'] for p in rec['pipes']]}): an idle, open connection was not reused", **base))
    # ---- what the server received for every request that succeeded (C03): method and body, byte for byte, exactly once
    seen = {}
    for p in rec["pipes"]:
        for ex in p["exchanges"]:
            if ex["token"]:
                seen.setdefault(ex["token"], []).append(ex)
    for req, out in zip(sc["requests"], rec["outs"]):
        if out["exc"] is not None:
            if not fired and not refusal and req["body"] is not None and not (out["exc"]["name"].endswith("Timeout") and SHORT in timeouts_for(sc).values()):
                got = [len(e["body"] or b"") for e in seen.get(req["tok"], [])]
                v["C03"].append(V("C03", "upload-failed", f"{what}: request {req['tok']} ({req['body']} body) raised {out['exc']['type']}: {out['exc']['msg'][:120]} although "
                                  f"server and network behaved; body bytes that reached a server: {got}", exc=out["exc"]["name"], **base))
            continue
        exs = [e for e in seen.get(req["tok"], []) if e["complete"]]
        b = body_for(req)
        want = b"" if b is None else (b if isinstance(b, (bytes, bytearray)) else b"".join(b["chunks"]))
        if len(exs) != 1:
            v["C03"].append(V("C03", "transmissions", f"{what}: request {req['tok']} succeeded; complete copies of it received by servers: {len(exs)}", **base))
        elif exs[0]["method"] != req["method"].encode() or (exs[0]["body"] or b"") != want:
            got = exs[0]["body"] or b""
            n = min(len(got), len(want))
            diff = next((i for i in range(n) if got[i] != want[i]), n)
            v["C03"].append(V("C03", "body", f"{what}: request {req['tok']}: the server received {exs[0]['method']!r} with a body of {len(got)} bytes, the caller sent "
                              f"{req['method']} with {len(want)} bytes (first difference at offset {diff})", **base))
    # ---- what actually went over the wire in the ClientHello of the origin hop (C10): server name, ALPN offer, TLS iff https
    pool_cfg0, _, scheme0 = topo(kind)
    proxy_hop_tls = 1 if "https-proxy" in kind else 0
    for p in rec["pipes"]:
        origin_tls = p["tls_records"][proxy_hop_tls:]
        hosts = {ex["host"] for ex in p["exchanges"] if ex["host"] and not ex["host"].startswith("proxy.") and not ex["proxy_hop"]}
        for t in origin_tls:
            if t["sni"] not in ("a.test", "b.test") or (hosts and t["sni"] not in hosts):
                v["C10"].append(V("C10", "sni", f"{what}: the ClientHello for the origin on connection {p['id']} carries server name {t['sni']!r}; the requests on it "
                                  f"are for {sorted(hosts) or ['a.test / b.test']}", mode="real", **base))
            want_h2 = bool(pool_cfg0.get("http2"))
            if ("h2" in (t["alpn"] or [])) != want_h2 or "http/1.1" not in (t["alpn"] or []) and pool_cfg0.get("http1", True):
                v["C10"].append(V("C10", "alpn-offer", f"{what}: the ClientHello for the origin on connection {p['id']} offers ALPN {t['alpn']} with http2={want_h2}", mode="real", **base))
        for ex in p["exchanges"]:
            if ex["proxy_hop"] or (ex["host"] and ex["host"].startswith("proxy.")):
                continue
            want_depth = proxy_hop_tls + (1 if scheme0 == "https" else 0)
            if ex["tls_depth"] is not None and ex["tls_depth"] != want_depth and not (scheme0 == "http" and "forward" in kind and ex["tls_depth"] == proxy_hop_tls):
                v["C10"].append(V("C10", "tls-per-scheme", f"{what}: request {ex['token']} ({scheme0}) travelled under {ex['tls_depth']} TLS layer(s), expected {want_depth}", mode="real", **base))
    # ---- ledger
    if rec["not_closed"]:
        tg = [p["target"] for p in rec["pipes"] if p["id"] in rec["not_closed"]]
        v["C06"].append(V("C06", "socket-not-closed", f"{what}: after the pool was closed the server still has open connection(s) {rec['not_closed']} to {tg} "
                          f"that the client never closed (events {[p['events'] for p in rec['pipes'] if p['id'] in rec['not_closed']]})", **base))
    if rec["unclosed"]:
        v["C06"].append(V("C06", "socket-dropped-unclosed", f"{what}: {rec['unclosed'][:3]}", **base))
    tags = [kind, "variant-" + rec["variant"], "fault-" + (fk or "none") + ("" if fired or not fk else "-not-reached"), f"requests={len(sc['requests'])}"]
    if sc.get("ragged_close") and kind in TLS_KINDS:
        tags.append("tls-close-without-close_notify")
    if sc.get("uds"):
        tags.append("unix-socket")
    tags += tags_extra
    if any(p["tls"] >= 2 for p in rec["pipes"]):
        tags.append("tls-in-tls")
    if any(o["exc"] is None and len(o["body"]) > 60000 for o in rec["outs"]):
        tags.append("big-response")
    if any(r["body"] in ("big", "huge") for r in sc["requests"]):
        tags.append("big-upload")
    return v, tags, fired


def _needed(sc, rec, p):
    return 1 << 60


def harness_check(rec):
    if rec["harness_errors"]:
        from ..common import HarnessError

        raise HarnessError("real-network peer thread failed: " + rec["harness_errors"][0])


def make_execute(prop_id):
    def execute(sc) -> Outcome:
        rec = run_real(sc)
        harness_check(rec)
        v, tags, fired = judge(sc, rec)
        nontrivial = fired or len(sc["requests"]) > 1 or "tls-in-tls" in tags or "big-response" in tags
        if prop_id == "C16":
            nontrivial = fired and (sc.get("fault") or {}).get("kind") in ("stall", "tls-stall", "connect-stall", "read-stall")
        return Outcome(v[prop_id][:4], tags, nontrivial,
                       info={"outcomes": [(o.get("status") or o["exc"]["name"]) for o in rec["outs"]], "fired": rec["fired"][:2], "pipes": len(rec["pipes"])})
    return execute


# ----------------------------------------------------------------------------- C18: the same scenario through every variant

DETERMINISTIC_FAULTS = (None, "refuse", "connect-stall", "stall", "tls-alert", "tls-plain-http", "tls-close", "tls-stall", "untrusted")


@st.composite
def diff_scenarios(draw):
    sc = draw(real_scenarios())
    fk = (sc.get("fault") or {}).get("kind")
    if (fk is None or fk not in DETERMINISTIC_FAULTS) and draw(st.integers(0, 2)) == 0:
        sc["fault"] = None
        sc["requests"][0].update(method="POST", body="huge")  # a 3 MB upload: partial socket writes, TLS record splitting, HTTP/2 flow control
    if fk == "truncate" and all(r["body"] is None for r in sc["requests"]):
        pass  # the client never writes while the connection ends: the outcome is a function of the bytes delivered
    elif fk not in DETERMINISTIC_FAULTS:
        sc["fault"] = None  # resets / truncations / garbage race with the client's own writes: outcome classes may legitimately differ
    return sc


def execute_diff(sc) -> Outcome:
    recs = {}
    for variant in VARIANTS:
        recs[variant] = run_real(sc, variant)
        harness_check(recs[variant])
    vio = []
    ref = recs["sync"]
    what = f"[real] {sc['kind']} requests={[(r['method'], r['body'], r['api']) for r in sc['requests']]} verify={sc['verify']} fault={sc.get('fault')}"

    def summary(o):
        if o["exc"] is not None:
            return ("exc", o["exc"]["name"])
        return ("ok", o["status"], o["headers"], o["body"], o.get("http_version"), o.get("reason"))

    short = SHORT in timeouts_for(sc).values()
    for variant in VARIANTS[1:]:
        for i, (a, b) in enumerate(zip(ref["outs"], recs[variant]["outs"])):
            sa, sb = summary(a), summary(b)
            if short and sa[0] == sb[0] == "exc" and sa[1].endswith("Timeout") and sb[1].endswith("Timeout"):
                continue  # which of the 0.06 s limits expired first is a matter of timing
            stall = (sc.get("fault") or {}).get("kind") in ("stall", "tls-stall", "connect-stall", "read-stall")
            if (short and stall and sa[0] == sb[0] == "exc" and sa[1].endswith("Timeout") != sb[1].endswith("Timeout")
                    and ref["fired"] and recs[variant]["fired"] and sc["kind"] not in REFUSALS):
                # (only where the silence was actually reached in both runs, and the scenario itself does not end in a refusal: otherwise the
                # error class is the scenario's own outcome and the Timeout a 0.06 s limit that expired early on a busy machine)
                # a silent peer: one variant reports an expired limit, the other an error. Load can make a DIFFERENT limit expire (a Timeout class
                # again) or none at all, but it cannot turn silence into a network / protocol error: the variants disagree about the class
                vio.append(V("C18", "diff-real-backend", f"{what}: request {i}: sync -> {sa[1]}, {variant} -> {sb[1]} for a peer that is silent "
                             f"({a['exc']['msg'][:80]!r} vs {b['exc']['msg'][:80]!r})", conn=sc["kind"], variant=variant, fault=sc["fault"]["kind"]))
                break
            if short and ((sa[0] == "exc" and sa[1].endswith("Timeout")) or (sb[0] == "exc" and sb[1].endswith("Timeout"))):
                break  # a 0.06 s timeout may also expire in a step the fault did not touch (busy machine): what follows is not comparable
            if sa != sb:
                da = sa[1] if sa[0] == "exc" else f"{sa[1]}/{len(sa[3])}B"
                db = sb[1] if sb[0] == "exc" else f"{sb[1]}/{len(sb[3])}B"
                vio.append(V("C18", "diff-real-backend", f"{what}: request {i}: sync -> {da}, {variant} -> {db} "
                             f"({a['exc'] and a['exc']['msg'][:80]!r} vs {b['exc'] and b['exc']['msg'][:80]!r})", conn=sc["kind"], variant=variant,
                             fault=(sc.get("fault") or {}).get("kind") or "none"))
                break
    fired = any(r["fired"] for r in recs.values())
    tags = [sc["kind"], "fault-" + ((sc.get("fault") or {}).get("kind") or "none")]
    if any(r["body"] == "huge" for r in sc["requests"]):
        tags.append("upload-3MB-small-send-buffer")
    return Outcome(vio[:4], tags, fired or len(sc["requests"]) > 1, info={"outcomes": {k: [(o.get("status") or o["exc"]["name"]) for o in r["outs"]] for k, r in recs.items()}},
                   metrics={"variant_runs": len(VARIANTS)})


RULE = ("real-backend layer: connection kind (all 21 topologies incl. TLS-in-TLS) x variant (sync, asyncio via AutoBackend/AnyIOBackend, trio via "
        "AutoBackend/TrioBackend, AnyIOBackend on trio) x 1-3 sequential requests (GET / POST bytes / iterator / 60 kB / 3 MB bodies; generated "
        "response plans incl. 60-200 kB bodies) x certificate verification (off / against the test CA / untrusted) x at most one real-network fault: "
        "clean close or RST or silence after N plaintext bytes of a connection's server stream, a non-TLS record below an established TLS session, "
        "TLS handshake answered by an alert / plain HTTP / close / silence, refused connect, connect that never completes, peer that stops reading. "
        "All run over loopback TCP against the peer models with real TLS. Non-trivial: the fault was reached, or the connection was reused, or "
        "TLS-in-TLS, or a response > 60 kB.")
ASSUME = ["loopback TCP on 127.0.0.0/8 and binding of ports >= 1024 are available in the sandbox (they are); the kernel's TCP, OpenSSL and the "
          "anyio / trio / asyncio runtimes are trusted", "the only short timeouts (0.06 s) are the ones meant to expire, so verdicts do not depend on machine load; "
          "a Timeout exception in a fault-free run after >= 19 s of wall time is discarded as inconclusive", "what the client has *read* cannot be observed on a "
          "real socket: the 'previous response fully read' wire check of C01 is not evaluated here"]


# ----------------------------------------------------------------------------- concurrent callers over real sockets (C01, C04)

@st.composite
def concurrent_scenarios(draw, h2_only=False):
    kind = draw(st.sampled_from([k for k in KINDS if k not in REFUSALS and (is_h2(k) or not h2_only)]))
    h2 = is_h2(kind)
    callers, plans = [], {}
    k = 0
    for ci in range(draw(st.integers(2, 6))):
        prog = []
        for _ in range(draw(st.integers(1, 3))):
            tok = f"c{k}"
            k += 1
            body = draw(st.sampled_from([None, None, "bytes", "iter", "big"]))
            prog.append({"tok": tok, "method": "GET" if body is None else "POST", "body": body, "api": draw(st.sampled_from(["request", "stream"])),
                         "host": draw(st.sampled_from(["a.test", "a.test", "b.test"]))})
            plans[tok] = bound_cost(draw(gen.h2_plans(big=draw(st.integers(0, 9)) == 0) if h2 else gen.h1_plans(big=draw(st.integers(0, 9)) == 0)))
        callers.append(prog)
    return {"kind": kind, "variant": draw(st.sampled_from(["asyncio", "trio", "anyio-trio"])), "callers": callers, "plans": plans,
            "max_connections": draw(st.sampled_from([1, 1, 2, 3])), "verify": "none"}


def run_concurrent(sc):
    pool_cfg, cfg, scheme = topo(sc["kind"], plans=sc["plans"], hosts=HOSTS, pool_extra={"max_connections": sc["max_connections"]})
    port = port_for(scheme)
    tmo = {"connect": LONG, "read": LONG, "write": LONG, "pool": LONG}
    results = [[] for _ in sc["callers"]]
    rec = {"variant": sc["variant"]}
    with RealNet(cfg) as net:
        net.limit = sc["max_connections"]

        async def caller(pool, ci, prog):
            for r in prog:
                spec = {"method": r["method"], "url": f"{scheme}://{r['host']}:{port}/t/{r['tok']}", "api": r["api"], "read": "all", "timeouts": dict(tmo)}
                b = body_for(r)
                if b is not None:
                    spec["content"] = b
                o = await async_request(pool, spec)
                o.pop("network_stream", None)
                results[ci].append(o)

        if sc["variant"] == "asyncio":
            async def go():
                pool = build_real_pool(pool_cfg, False, "none")
                await asyncio.gather(*[caller(pool, i, p) for i, p in enumerate(sc["callers"])])
                await pool.aclose()

            loop = asyncio.new_event_loop()
            try:
                loop.run_until_complete(go())
                loop.run_until_complete(loop.shutdown_default_executor())
            finally:
                loop.close()
        else:
            import trio

            async def go():
                pool = build_real_pool(pool_cfg, False, "none", backend=httpcore.AnyIOBackend() if sc["variant"] == "anyio-trio" else None)
                async with trio.open_nursery() as nursery:
                    for i, p in enumerate(sc["callers"]):
                        nursery.start_soon(caller, pool, i, p)
                await pool.aclose()

            trio.run(go)
        rec["not_closed"] = net.wait_client_closed(3.0)
        rec["overshoots"] = list(net.overshoots)
        rec["max_open"] = net.max_open
        rec["pipes"] = len(net.pipes)
        rec["harness_errors"] = list(net.errors)
        rec["h2_max_streams"] = max([getattr(getattr(p.peer.leaf(), "h2", None), "max_open_seen", 0) for p in net.pipes] or [0])
    rec["results"] = results
    return rec


def make_execute_concurrent(prop_id):
    def execute(sc) -> Outcome:
        rec = run_concurrent(sc)
        harness_check(rec)
        kind = sc["kind"]
        h2 = is_h2(kind)
        base = dict(conn=kind, variant=rec["variant"], layer="real-concurrent")
        what = f"[real {rec['variant']}] {kind} max_connections={sc['max_connections']} callers={[[r['tok'] for r in p] for p in sc['callers']]}"
        v1, v4, v12 = [], [], []
        for ci, prog in enumerate(sc["callers"]):
            for r, out in zip(prog, rec["results"][ci]):
                if out["exc"] is not None:
                    if out["exc"]["name"].endswith("Timeout") and LONG - 1 <= 20:
                        pass
                    # HTTP/1.1: a request to a healthy server can only fail through a connection that was not properly finished / was closed (C01);
                    # HTTP/2: a sibling's completion or an eviction broke a request that was under way (C12)
                    pid = "C12" if h2 else "C01"
                    (v12 if h2 else v1).append(V(pid, "request-failed", f"{what}: caller {ci} request {r['tok']} raised {out['exc']['type']}: {out['exc']['msg'][:150]} (in "
                                                 f"{out['exc'].get('inner')}) although server and network behaved", exc=out["exc"]["name"], **base))
                    continue
                tr = truth_h2(sc["plans"][r["tok"]], r["tok"], r["method"].encode()) if h2 else truth_h1(sc["plans"][r["tok"]], r["tok"], r["method"].encode())
                if out["status"] != tr["status"] or out["headers"] != tr["headers"] or out["body"] != tr["body"]:
                    xt = [v_ for n_, v_ in out["headers"] if n_.lower() == b"x-tok"]
                    v1.append(V("C01", "wrong-response", f"{what}: caller {ci} asked for {r['tok']} and received status {out['status']}, x-tok {xt}, {len(out['body'])} body "
                                f"bytes (expected {tr['status']}, {len(tr['body'])} bytes)", **base))
            if len(rec["results"][ci]) != len(prog):
                v1.append(V("C01", "caller-incomplete", f"{what}: caller {ci} performed {len(rec['results'][ci])} of {len(prog)} requests", **base))
        for o in rec["overshoots"]:
            v4.append(V("C04", "streams-overshoot", f"{what}: the server accepted connection {o['new']} while connections {o['still_open']} (to {o['targets']}) were still "
                        f"open 0.3 s later: more than max_connections={sc['max_connections']} sockets held at once", **base))
        tags = [kind, "variant-" + rec["variant"], f"N={sc['max_connections']}", f"callers={len(sc['callers'])}"]
        if rec["h2_max_streams"] >= 2:
            tags.append("h2-multiplexed")
        if rec["pipes"] > sc["max_connections"]:
            tags.append("connections-recycled")
        nontrivial = rec["h2_max_streams"] >= 2 or rec["pipes"] > sc["max_connections"] or rec["max_open"] >= sc["max_connections"]
        return Outcome({"C01": v1, "C04": v4, "C12": v12}[prop_id][:4], tags, nontrivial, info={"pipes": rec["pipes"], "max_open": rec["max_open"]})
    return execute


def concurrent_layer(prop_id, budget):
    from ..prop import Layer

    strat = (lambda: concurrent_scenarios(h2_only=True)) if prop_id == "C12" else concurrent_scenarios
    return Layer("real-concurrent", strategy=strat, execute=make_execute_concurrent(prop_id), budget=budget)


# ----------------------------------------------------------------------------- C17 over real sockets: 101 Upgrade, then the raw stream

UPGRADE_KINDS = ["direct-h1", "direct-tls-h1", "tunnel-h1", "tunnel-auth-h1", "tunnel-https-proxy-h1", "socks-h1", "socks-tls-h1", "socks-auth-h1", "direct-h2-fallback-h1"]


@st.composite
def upgrade_scenarios(draw):
    d = draw(st.sampled_from([0, 0, 1, 7, 300, 5000, 70000]))
    script = []
    for _ in range(draw(st.integers(0, 4))):
        if draw(st.booleans()):
            script.append(["write", draw(st.sampled_from([b"x", b"ping-1", b"y" * 100, b"z" * 20000]))])
        else:
            script.append(["read", draw(st.sampled_from([1, 2, 10, 100, 4096, 65536]))])
    return {"kind": draw(st.sampled_from(UPGRADE_KINDS)), "variant": draw(st.sampled_from(VARIANTS)), "d": d, "script": script,
            "ragged_close": draw(st.booleans()), "duplex": draw(st.booleans())}


DUPLEX_KINDS = ("direct-h1", "socks-h1", "socks-auth-h1")  # full-duplex use from two threads / tasks is exercised on plain-TCP streams only (one SSL object must
#                                                            not be driven from two threads, and the TLS stream wrappers are not what the property is about)
DUPLEX_T = 4.0


def execute_upgrade(sc) -> Outcome:
    from ..peers.h1 import body_bytes

    lead = body_bytes("LEAD", sc["d"])
    plan = {"status": 101, "reason": "Switching Protocols", "headers": [["Connection", "upgrade"], ["Upgrade", "sim-proto"]], "leading": lead, "echo": "swapcase"}
    pool_cfg, cfg, scheme = topo(sc["kind"], plans={"u0": plan}, hosts=HOSTS)
    port = port_for(scheme)
    url = f"{scheme}://a.test:{port}/t/u0"
    headers = [(b"Connection", b"upgrade"), (b"Upgrade", b"sim-proto")]
    ext = {"timeout": {"connect": LONG, "read": LONG, "write": LONG, "pool": LONG}}
    res = {"reads": [], "exc": None, "status": None, "in_pool_after": None}
    expected = bytearray(lead)
    variant = sc["variant"]
    duplex = bool(sc.get("duplex")) and sc["kind"] in DUPLEX_KINDS
    dup = {}

    def steps():
        """generator of ("write", data) / ("read", n); reads only while something is owed, as a real read would block otherwise"""
        got = [0]
        for op in sc["script"]:
            if op[0] == "write":
                expected.extend(bytes(op[1]).swapcase())
                yield ("write", bytes(op[1]), got)
            elif got[0] < len(expected):
                yield ("read", op[1], got)
        while got[0] < len(expected):
            before = got[0]
            yield ("read", 65536, got)
            if got[0] == before:
                break

    with warnings.catch_warnings(record=True):
        warnings.simplefilter("ignore")
        with RealNet(cfg) as net:
            net.ragged_close = bool(sc.get("ragged_close"))
            try:
                if variant == "sync":
                    pool = build_real_pool(pool_cfg, True, "none")
                    with pool.stream("GET", url, headers=headers, extensions=dict(ext)) as resp:
                        res["status"] = resp.status
                        ns = resp.extensions["network_stream"]
                        for kind_, arg, got in steps():
                            if kind_ == "write":
                                ns.write(arg, timeout=LONG)
                            else:
                                data = ns.read(arg, timeout=LONG)
                                res["reads"].append(data)
                                got[0] += len(data)
                        if duplex and sum(map(len, res["reads"])) == len(expected):
                            # full duplex: a reader is parked on live data (nothing is pending) while another thread writes; the peer answers the write
                            import threading
                            import time as _t

                            def reader():
                                try:
                                    dup["data"] = ns.read(65536, timeout=DUPLEX_T)
                                except Exception as exc:
                                    dup["read_exc"] = type(exc).__name__
                                dup["t_read_end"] = _t.monotonic()

                            th = threading.Thread(target=reader, daemon=True)
                            th.start()
                            _t.sleep(0.15)
                            ns.write(b"duplex-ping", timeout=LONG)
                            dup["t_write_done"] = _t.monotonic()
                            th.join(DUPLEX_T + 5)
                            dup["ran"] = True
                    res["in_pool_after"] = [repr(c) for c in pool.connections]
                    pool.close()
                else:
                    async def go():
                        pool = build_real_pool(pool_cfg, False, "none", backend=httpcore.AnyIOBackend() if variant == "anyio-trio" else None)
                        async with pool.stream("GET", url, headers=headers, extensions=dict(ext)) as resp:
                            res["status"] = resp.status
                            ns = resp.extensions["network_stream"]
                            for kind_, arg, got in steps():
                                if kind_ == "write":
                                    await ns.write(arg, timeout=LONG)
                                else:
                                    data = await ns.read(arg, timeout=LONG)
                                    res["reads"].append(data)
                                    got[0] += len(data)
                            if duplex and sum(map(len, res["reads"])) == len(expected):
                                import time as _t

                                import anyio

                                async def reader():
                                    try:
                                        dup["data"] = await ns.read(65536, timeout=DUPLEX_T)
                                    except Exception as exc:
                                        dup["read_exc"] = type(exc).__name__
                                    dup["t_read_end"] = _t.monotonic()

                                async with anyio.create_task_group() as tg:
                                    tg.start_soon(reader)
                                    await anyio.sleep(0.15)
                                    await ns.write(b"duplex-ping", timeout=LONG)
                                    dup["t_write_done"] = _t.monotonic()
                                dup["ran"] = True
                        res["in_pool_after"] = [repr(c) for c in pool.connections]
                        await pool.aclose()

                    if variant == "asyncio":
                        loop = asyncio.new_event_loop()
                        try:
                            loop.run_until_complete(go())
                            loop.run_until_complete(loop.shutdown_default_executor())
                        finally:
                            loop.close()
                    else:
                        import trio

                        trio.run(go)
            except Exception as exc:
                from ..drivers import exc_info

                res["exc"] = exc_info(exc)
            not_closed = net.wait_client_closed(3.0)
            errors = list(net.errors)
    if errors:
        from ..common import HarnessError

        raise HarnessError("real-network peer thread failed: " + errors[0])
    vio = []
    base = dict(conn=sc["kind"], variant=variant, mode="real")
    what = f"[real {variant}] {sc['kind']} 101 Upgrade followed by {sc['d']} bytes, script {[(o[0], len(o[1]) if o[0] == 'write' else o[1]) for o in sc['script']]}"
    got = b"".join(res["reads"])
    if res["exc"] is not None:
        vio.append(V("C17", "exception", f"{what}: {res['exc']['type']}: {res['exc']['msg']} (in {res['exc'].get('inner')})", **base))
    elif res["status"] != 101:
        vio.append(V("C17", "status", f"{what}: status {res['status']}", **base))
    elif got != bytes(expected):
        n = min(len(got), len(expected))
        diff = next((i for i in range(n) if got[i] != expected[i]), n)
        vio.append(V("C17", "bytes-lost" if len(got) < len(expected) else "bytes-wrong", f"{what}: the handed-over stream yielded {len(got)} bytes, the server sent "
                     f"{len(expected)} after the head (first difference at offset {diff}: got {got[diff:diff + 12]!r}, sent {bytes(expected[diff:diff + 12])!r})", **base))
    if dup.get("ran") and res["exc"] is None:
        if dup.get("data") == b"DUPLEX-PING":
            pass
        elif dup.get("read_exc") == "ReadTimeout" and dup.get("t_write_done", 0) >= dup.get("t_read_end", 1e18):
            vio.append(V("C17", "write-blocked-by-pending-read", f"{what}: with a read() pending on the handed-over stream (nothing to read yet) a write() from another "
                         f"{'thread' if variant == 'sync' else 'task'} did not go out until that read had timed out after {DUPLEX_T} s - writes do not pass straight through",
                         **base))
        elif dup.get("read_exc") == "ReadTimeout":
            pass  # the write went out in time but the answer took more than DUPLEX_T (a busy machine): inconclusive
        elif dup.get("data") is not None and b"DUPLEX-PING".startswith(dup["data"]) and dup["data"]:
            pass  # a partial answer (the kernel may split it)
        else:
            vio.append(V("C17", "bytes-wrong", f"{what}: full-duplex step: the pending read returned {dup.get('data')!r} / {dup.get('read_exc')} instead of the "
                         "peer's answer to the write", **base))
    if res["in_pool_after"]:
        vio.append(V("C17", "returned-to-pool", f"{what}: after the upgraded response was closed the pool still lists {res['in_pool_after']}", **base))
    if not_closed:
        vio.append(V("C17", "socket-not-closed", f"{what}: connection(s) {not_closed} still open after the pool was closed", **base))
    tags = [sc["kind"], "variant-" + variant, f"leading={'0' if not sc['d'] else ('small' if sc['d'] < 1000 else 'big')}"]
    if dup.get("ran"):
        tags.append("full-duplex-step")
    return Outcome(vio[:4], tags, sc["d"] > 0 or any(o[0] == "write" for o in sc["script"]), info={"reads": len(res["reads"]), "bytes": len(got)})


def stall_matrix(tier):
    """C16, enumerated: every connection kind x variant x a silent peer at every stage (TCP connect, each TLS handshake, SOCKS / CONNECT reply,
    response head, response body, upload)."""
    cases = []
    for kind in KINDS:
        n_tls = 2 if kind == "tunnel-https-proxy-h1" else (1 if kind in TLS_KINDS else 0)
        for variant in VARIANTS:
            base = {"kind": kind, "variant": variant, "verify": "none", "plans": {"r0": {"status": 200, "body_len": 300}}}
            get = [{"tok": "r0", "method": "GET", "body": None, "api": "request", "host": "a.test"}]
            faults = [{"connect": 0, "kind": "connect-stall"}] + [{"tls": k, "kind": "tls-stall"} for k in range(n_tls)]
            faults += [{"pipe": 0, "kind": "stall", "at": at} for at in (0, 3, 20, 60, 200)]
            for f in faults:
                cases.append(dict(base, requests=[dict(r) for r in get], fault=f))
            cases.append(dict(base, requests=[{"tok": "r0", "method": "POST", "body": "huge", "api": "request", "host": "a.test"}],
                              fault={"pipe": 0, "kind": "read-stall", "at": 0}))
    return cases


def truncation_sweep(tier):
    """C02, enumerated over real sockets: one small response per framing, the server's stream cut (FIN, with and without close_notify) after EVERY
    plaintext offset (quick: a fixed third of the offsets, five kinds; thorough: every offset, every kind that can carry the response)."""
    cases = []
    kinds = [k for k in KINDS if k not in REFUSALS] if tier == "thorough" else ["direct-h1", "direct-tls-h1", "direct-h2", "tunnel-https-proxy-h1", "socks-tls-h1"]
    for kind in kinds:
        h2 = is_h2(kind)
        plans_ = [{"status": 200, "body_len": 40, "h2_frames": [16]}] if h2 else [
            {"status": 200, "body_len": 40, "framing": "cl"}, {"status": 200, "body_len": 40, "framing": "chunked", "chunks": [16]},
            {"status": 200, "body_len": 40, "framing": "close"}]
        for plan in plans_:
            for variant in VARIANTS:
                for at in range(0, 260):
                    if tier == "quick" and (at + VARIANTS.index(variant)) % 3:
                        continue
                    cases.append({"kind": kind, "variant": variant, "verify": "none", "plans": {"r0": dict(plan)}, "ragged_close": False,
                                  "requests": [{"tok": "r0", "method": "GET", "body": None, "api": "request", "host": "a.test"}],
                                  "fault": {"pipe": 0, "kind": "truncate", "at": at, "ragged": bool(at % 2)}})
    return cases


def layer_for(prop_id, budget):
    from ..prop import Layer

    if prop_id == "C09":
        strat = keepalive_scenarios
    elif prop_id == "C03":
        strat = upload_scenarios
    elif prop_id == "C10":
        strat = lambda: real_scenarios(with_faults=False, kinds=TLS_KINDS)  # noqa: E731
    elif prop_id == "C02":
        strat = lambda: real_scenarios(only=("truncate",), fault_share=4)  # noqa: E731
    elif prop_id == "C16":
        strat = lambda: real_scenarios(only=("stall", "tls-stall", "connect-stall", "read-stall"), fault_share=9)  # noqa: E731
    else:
        strat = real_scenarios
    return Layer("real-backends", strategy=strat, execute=make_execute(prop_id), budget=budget)
