"""RealNet: the same sans-IO peer models (vf/peers) served over REAL loopback TCP sockets, so that httpcore's own network backends
(`_backends/sync.py`, `anyio.py`, `trio.py`, `auto.py`) - which SimNet replaces everywhere else - are the code under test.

* name resolution: `socket.getaddrinfo` is replaced (harness side, for the duration of one case) by a resolver that maps every
  "host:port" a client asks for to a loopback listener created on demand for that endpoint name; the endpoint's role / ALPN / plans come
  from the same NetConfig the simulated runs use.
* one thread per accepted connection pumps bytes between the socket and the peer model; TLS is real (ssl.MemoryBIO server side, any
  depth: TLS-in-TLS for https proxies), detected from the ClientHello at the points where the peer model may start TLS; SNI and the
  offered ALPN list are parsed from the ClientHello and passed to the peer model, which chooses the protocol.
* faults are things a real peer / network does, at byte offsets of the server's plaintext stream: clean close (FIN, with or without
  close_notify), reset (RST), stall (no more bytes, no close), garbage below an established TLS layer, TLS handshake refusals (alert,
  plain-HTTP answer, close, stall), refused connect, connect that never completes (full accept queue), a peer that stops reading.
  Outcomes of all of them are load-independent: the only short timeouts are the ones that are *meant* to expire.
"""
from __future__ import annotations

import os
import socket
import ssl
import struct
import threading
import time

from .peers.endpoints import HttpPeer, NetConfig

DATA_DIR = os.path.join(os.path.dirname(os.path.abspath(__file__)), "data")
LONG = 20.0  # a timeout that is never meant to expire
GIVE_UP = 8.0  # a silent peer ends the connection after this long, so that a client that ignores its own timeout does not hang the harness
_ORIG_GETADDRINFO = socket.getaddrinfo

_SERVER_CTX: dict = {}


def server_ctx(alpn):
    key = alpn
    if key not in _SERVER_CTX:
        ctx = ssl.SSLContext(ssl.PROTOCOL_TLS_SERVER)
        ctx.load_cert_chain(os.path.join(DATA_DIR, "server.pem"))
        if alpn:
            ctx.set_alpn_protocols([alpn])
        _SERVER_CTX[key] = ctx
    return _SERVER_CTX[key]


def client_ctx(verify="none"):
    ctx = ssl.SSLContext(ssl.PROTOCOL_TLS_CLIENT)
    if verify == "none":
        ctx.check_hostname = False
        ctx.verify_mode = ssl.CERT_NONE
    elif verify == "ca":
        ctx.load_verify_locations(os.path.join(DATA_DIR, "ca.pem"))
    # verify == "untrusted": verification on, empty trust store -> every handshake fails with a certificate error
    return ctx


def parse_client_hello(buf: bytes):
    """-> None if `buf` does not yet hold the complete first TLS record, else (sni | None, alpn list | None)."""
    if len(buf) < 5:
        return None
    n = struct.unpack(">H", buf[3:5])[0]
    if len(buf) < 5 + n:
        return None
    try:
        p = 5
        if buf[p] != 1:
            return (None, None)
        p += 4  # handshake type + length
        p += 2 + 32  # version + random
        p += 1 + buf[p]  # session id
        p += 2 + struct.unpack(">H", buf[p:p + 2])[0]  # cipher suites
        p += 1 + buf[p]  # compression methods
        end = p + 2 + struct.unpack(">H", buf[p:p + 2])[0]
        p += 2
        sni = alpn = None
        while p + 4 <= end:
            et, el = struct.unpack(">HH", buf[p:p + 4])
            body = buf[p + 4:p + 4 + el]
            p += 4 + el
            if et == 0 and len(body) >= 5:
                ln = struct.unpack(">H", body[3:5])[0]
                sni = body[5:5 + ln].decode("latin-1")
            elif et == 16 and len(body) >= 2:
                q = 2
                alpn = []
                while q < len(body):
                    alpn.append(body[q + 1:q + 1 + body[q]].decode("latin-1"))
                    q += 1 + body[q]
        return (sni, alpn)
    except (IndexError, struct.error):
        return (None, None)


class _Layer:
    def __init__(self, ctx):
        self.inc = ssl.MemoryBIO()
        self.out = ssl.MemoryBIO()
        self.obj = ctx.wrap_bio(self.inc, self.out, server_side=True)
        self.done = False
        self.peer_closed = False


class RealPipe:
    """The attribute surface the peer models expect from a SimNet Pipe, backed by one accepted socket."""

    def __init__(self, net, ordinal, name, sock):
        self.world = net
        self.id = ordinal
        self.kind = "tcp"
        host, port = name.rsplit(":", 1)
        self.target = (host, int(port))
        self.sock = sock
        self.written = bytearray()  # plaintext client -> server
        self.sent = bytearray()  # plaintext server -> client
        self.tls: list[dict] = []
        self.neg_written = None
        self.neg_sent = None
        self.noseg_until = 0
        self.peer = None
        self.layers: list[_Layer] = []
        self.outq: list = []
        self.hello = bytearray()
        self.events: list = []  # what happened on this connection, for oracles / diagnosis
        self.fault_fired = None
        self.client_closed = threading.Event()
        self.ended = threading.Event()
        self.half_closed = threading.Event()  # the server has sent its FIN (it is queued at the client's socket from then on)
        self.server_closed_first = False
        self.was_reset = False
        self.stalled = False
        self.read_stalled = False
        self.closing = False
        self.aborted = False
        self.thread = None
        self.raw_in = 0

    # ---- what peers call
    @property
    def delivered(self):
        return len(self.sent)  # what the client has consumed cannot be observed on a real socket

    def server_send(self, data: bytes, direct: bool = False) -> None:
        if not data or self.closing or self.stalled or self.aborted:
            return
        data = bytes(data)
        f = self.world.fault_for(self)
        if f is not None and f["kind"] in ("truncate", "reset", "stall", "tls-garbage") and self.fault_fired is None:
            at = f["at"]
            if len(self.sent) + len(data) >= at:
                keep = data[: max(0, at - len(self.sent))]
                if keep:
                    self.outq.append(("data", keep))
                    self.sent += keep
                self.fault_fired = dict(f, sent=len(self.sent), depth=len(self.layers))
                self.world.fired.append(self.fault_fired)
                if f["kind"] == "truncate":
                    self.outq.append(("close", bool(f.get("ragged"))))
                    self.closing = True
                elif f["kind"] == "reset":
                    self.outq.append(("reset",))
                    self.closing = True
                elif f["kind"] == "stall":
                    self.outq.append(("stall",))
                    self.stalled = True
                else:  # bytes that are no TLS record of this session, below the top TLS layer, then the connection ends (no close_notify)
                    self.outq.append(("garbage", b"\x17\x03\x03\x00\x20" + bytes(range(32)) + b"\x00\x01\x02 not a tls record \xff\xfe"))
                    self.outq.append(("close", True))
                    self.closing = True
                return
        self.outq.append(("data", data))
        self.sent += data

    def server_close(self, hidden: bool = False) -> None:
        if not self.closing:
            # many real servers end a TLS connection without close_notify; all three httpcore backends are configured to accept that
            self.outq.append(("close", bool(self.world.ragged_close)))
            self.closing = True


_STALL_SEQ = 0


class RealNet:
    """Stands for SimNet's World towards the peer models; owns listeners, connection threads and the resolver."""

    def __init__(self, cfg: NetConfig, faults=None):
        self.cfg = cfg
        self.faults = dict(faults or {})  # {"pipe": k, "kind": ..., "at": n} | {"connect": k, "kind": "refuse"|"connect-stall"} | {"tls": k, ...}
        self.lock = threading.RLock()
        self.seq = 0
        self.trace: list = []
        self.h2_gated = False
        self.deliver_gated = False
        self.pipes: list[RealPipe] = []
        self.listeners: dict = {}
        self.threads: list = []
        self.fired: list = []
        self.connect_attempts = 0
        self.tls_count = 0
        self.stopping = False
        self.filler: list = []
        self.errors: list = []
        self.resolved: list = []
        self.host_ips: dict = {}
        self.draining = False
        self.t0 = time.monotonic()
        self.ragged_close = False  # the server's own (planned) closes of TLS connections come without close_notify
        self.limit = None  # max_connections of the client's pool, if the server side should watch it
        self.max_open = 0
        self.overshoots: list = []

    # ---- faults
    def fault_for(self, pipe):
        f = self.faults
        if f and f.get("pipe") == pipe.id:
            return f
        return None

    # ---- resolver: every ".test" host gets its own loopback address (127.a.b.n, a.b private to this process); the port is the one asked for
    # (anyio takes only the address from getaddrinfo and keeps the caller's port, so ports cannot be remapped)
    def _ip(self, n):
        pid = os.getpid()
        return f"127.{1 + pid % 250}.{(pid // 250) % 250}.{n}"

    def _host_ip(self, host):
        if host not in self.host_ips:
            self.host_ips[host] = self._ip(1 + len(self.host_ips))
        return self.host_ips[host]

    def getaddrinfo(self, host, port, family=0, type=0, proto=0, flags=0):
        if isinstance(host, bytes):
            host = host.decode("ascii")
        if host is None or not isinstance(host, str) or not host.endswith(".test"):
            return _ORIG_GETADDRINFO(host, port, family, type, proto, flags)
        if flags & socket.AI_NUMERICHOST:
            raise socket.gaierror(socket.EAI_NONAME, "Name or service not known")
        if family not in (0, socket.AF_INET):
            raise socket.gaierror(socket.EAI_NONAME, "Name or service not known")
        port = int(port)
        name = f"{host.lower()}:{port}"
        with self.lock:
            k = self.connect_attempts
            self.connect_attempts += 1
            self.resolved.append(name)
            f = self.faults
            if f and f.get("connect") == k:
                self.fired.append(dict(f))
                if f["kind"] == "refuse":
                    addr = (self._ip(250), port)  # nothing listens there: the connect is refused
                else:  # connect-stall: a listener whose accept queue is full and never drained
                    # (its own address per occurrence: the listener of an earlier stall case lives until it gives up, GIVE_UP seconds later)
                    global _STALL_SEQ
                    s = None
                    for _try in range(30):
                        _STALL_SEQ += 1
                        addr = (self._ip(205 + _STALL_SEQ % 45), port)
                        cand = socket.socket()
                        cand.setsockopt(socket.SOL_SOCKET, socket.SO_REUSEADDR, 1)
                        try:
                            cand.bind(addr)
                            s = cand
                            break
                        except OSError:
                            cand.close()
                    if s is None:
                        self.errors.append(f"cannot create the stalling listener for {name} on port {port}: every candidate address is in use")
                        raise socket.gaierror(socket.EAI_FAIL, "harness could not create the listener")
                    s.listen(0)
                    self.filler.append(s)
                    for _ in range(2):
                        c = socket.socket()
                        c.setblocking(False)
                        try:
                            c.connect(addr)
                        except OSError:
                            pass
                        self.filler.append(c)
                    time.sleep(0.002)

                    def give_up(listener=s):
                        time.sleep(GIVE_UP)
                        try:
                            listener.close()  # the pending connect is refused at last
                        except OSError:
                            pass

                    threading.Thread(target=give_up, daemon=True).start()
            else:
                try:
                    try:
                        addr = self._listener(name, (self._host_ip(host.lower()), port))
                    except OSError as exc0:
                        import errno

                        if exc0.errno != errno.EADDRINUSE:
                            raise
                        # the address is taken (another process whose pid maps to the same block, or a listener of an earlier case that is
                        # still being torn down): move this host to another loopback block and try again
                        for k in range(1, 8):
                            pid = os.getpid()
                            self.host_ips[host.lower()] = f"127.{1 + (pid + 37 * k) % 250}.{(pid // 250 + 11 * k) % 250}.{200 + len(self.host_ips) % 40}"
                            try:
                                addr = self._listener(name, (self.host_ips[host.lower()], port))
                                break
                            except OSError as exc1:
                                if exc1.errno != errno.EADDRINUSE or k == 7:
                                    raise
                except OSError as exc:
                    # e.g. the address block of this process collides with another process: a harness problem (exit 2), never a verdict
                    self.errors.append(f"cannot listen on {self._host_ip(host.lower())}:{port} for {name}: {exc!r}")
                    raise socket.gaierror(socket.EAI_FAIL, "harness could not create the listener")
        return [(socket.AF_INET, socket.SOCK_STREAM, 6, "", addr)]

    def _listener(self, name, addr):
        if name not in self.listeners:
            s = socket.socket()
            s.setsockopt(socket.SOL_SOCKET, socket.SO_REUSEADDR, 1)
            if self.faults.get("kind") == "read-stall":
                s.setsockopt(socket.SOL_SOCKET, socket.SO_RCVBUF, 4096)
            s.bind(addr)
            s.listen(16)
            self.listeners[name] = s
            t = threading.Thread(target=self._accept_loop, args=(name, s), daemon=True)
            t.start()
            self.threads.append(t)
        return self.listeners[name].getsockname()

    def unix_listener(self, path, name):
        """A listener on a UNIX socket that stands for the endpoint `name` (pools created with uds=... send every connection there)."""
        s = socket.socket(socket.AF_UNIX, socket.SOCK_STREAM)
        s.bind(path)
        s.listen(16)
        self.listeners["uds:" + path] = s
        t = threading.Thread(target=self._accept_loop, args=(name, s), daemon=True)
        t.start()
        self.threads.append(t)

    def _accept_loop(self, name, lsock):
        while not self.stopping:
            try:
                conn, _ = lsock.accept()
            except OSError:
                return
            with self.lock:
                pipe = RealPipe(self, len(self.pipes), name, conn)
                self.pipes.append(pipe)
                pipe.peer = self.cfg.peer_factory(self, pipe)
                earlier = list(self.pipes[:-1])
            if self.limit is not None:
                # connection limit as the SERVER side sees it: connections accepted earlier that the client has not closed (no FIN / RST seen,
                # POLLRDHUP looks behind unread data). An apparent overshoot is re-checked for 0.3 s: a connection the pool has already dropped
                # and is closing ("evicted and being closed") disappears in that time, one that the pool really holds does not.
                alive = [p for p in earlier if self._alive(p)]
                self.max_open = max(self.max_open, min(len(alive) + 1, self.limit))
                if len(alive) + 1 > self.limit:
                    t_end = time.monotonic() + 0.3
                    while time.monotonic() < t_end and len(alive) + 1 > self.limit:
                        time.sleep(0.01)
                        alive = [p for p in alive if self._alive(p)]
                    if len(alive) + 1 > self.limit and not pipe.ended.is_set():
                        self.overshoots.append({"new": pipe.id, "still_open": [p.id for p in alive], "targets": [p.target for p in alive] + [pipe.target]})
                        self.max_open = max(self.max_open, len(alive) + 1)
            t = threading.Thread(target=self._serve, args=(pipe,), daemon=True)
            pipe.thread = t
            t.start()

    def _alive(self, p):
        import select

        if p.ended.is_set():
            return False
        try:
            po = select.poll()
            po.register(p.sock.fileno(), select.POLLRDHUP | select.POLLHUP | select.POLLERR)
            ev = po.poll(0)
        except (OSError, ValueError):
            return False
        return not ev

    # ---- TLS plumbing (server side, any depth)
    def _write_at(self, pipe, level, data):
        """Send `data` as the payload of layer `level`-1 (level 0 = the raw socket)."""
        if not data:
            return
        if level == 0:
            pipe.sock.sendall(data)
            return
        L = pipe.layers[level - 1]
        L.obj.write(data)
        self._flush_layer(pipe, level - 1)

    def _flush_layer(self, pipe, idx):
        L = pipe.layers[idx]
        b = L.out.read()
        if b:
            self._write_at(pipe, idx, b)

    def _pump(self, pipe, idx):
        L = pipe.layers[idx]
        out = []
        if not L.done:
            try:
                L.obj.do_handshake()
                L.done = True
                pipe.events.append(("tls-established", idx, L.obj.selected_alpn_protocol()))
            except ssl.SSLWantReadError:
                pass
            except ssl.SSLError as exc:
                pipe.events.append(("tls-handshake-failed", idx, str(exc)[:80]))
                pipe.aborted = True
            try:
                self._flush_layer(pipe, idx)
            except OSError:
                pipe.aborted = True
        if L.done and not pipe.aborted:
            while True:
                try:
                    d = L.obj.read(65536)
                except ssl.SSLWantReadError:
                    break
                except ssl.SSLZeroReturnError:
                    L.peer_closed = True
                    break
                except ssl.SSLError as exc:
                    pipe.events.append(("tls-read-failed", idx, str(exc)[:80]))
                    pipe.aborted = True
                    break
                if not d:
                    break
                out.append(d)
            try:
                self._flush_layer(pipe, idx)
            except OSError:
                pipe.aborted = True
        return out

    def _tls_may_start(self, pipe):
        leaf = pipe.peer.leaf()
        return isinstance(leaf, HttpPeer) and leaf.proto is None and not leaf.pending and not leaf.exchanges and leaf.parser.state != "raw"

    def _plaintext(self, pipe, raw):
        """Raw socket bytes -> plaintext chunks for the peer model (running handshakes, starting new TLS layers on a ClientHello)."""
        chunks = [raw]
        for idx in range(len(pipe.layers)):
            nxt = []
            for ch in chunks:
                pipe.layers[idx].inc.write(ch)
                nxt += self._pump(pipe, idx)
                if pipe.aborted:
                    return []
            chunks = nxt
        out = []
        for ch in chunks:
            if pipe.hello or (ch[:1] == b"\x16" and (len(ch) < 2 or ch[1:2] == b"\x03") and self._tls_may_start(pipe)):
                pipe.hello += ch
                parsed = parse_client_hello(bytes(pipe.hello))
                if parsed is None:
                    continue
                hello = bytes(pipe.hello)
                del pipe.hello[:]
                sni, alpn = parsed
                with self.lock:
                    k = self.tls_count
                    self.tls_count += 1
                    self.seq += 1
                    f = self.faults if self.faults.get("tls") == k else None
                    if f is not None:
                        self.fired.append(dict(f))
                        pipe.fault_fired = dict(f)
                    sel = pipe.peer.on_tls(sni, alpn)
                    pipe.tls.append({"server_hostname": sni, "alpn": alpn, "selected": sel, "at_written": len(pipe.written), "seq": self.seq})
                if f is not None:
                    level = len(pipe.layers)
                    if f["kind"] == "tls-alert":
                        self._write_at(pipe, level, b"\x15\x03\x03\x00\x02\x02\x28")  # fatal handshake_failure
                        pipe.outq.append(("close", True))
                        pipe.closing = True
                    elif f["kind"] == "tls-plain-http":
                        self._write_at(pipe, level, b"HTTP/1.1 400 Bad Request\r\nContent-Length: 0\r\nConnection: close\r\n\r\n")
                        pipe.outq.append(("close", True))
                        pipe.closing = True
                    elif f["kind"] == "tls-close":
                        pipe.outq.append(("close", True))
                        pipe.closing = True
                    else:  # tls-stall
                        pipe.stalled = True
                    return out
                pipe.layers.append(_Layer(server_ctx(sel)))
                pipe.layers[-1].inc.write(hello)
                out += self._pump(pipe, len(pipe.layers) - 1)
                if pipe.aborted:
                    return []
            else:
                out.append(ch)
        return out

    def _flush(self, pipe):
        while pipe.outq:
            act = pipe.outq.pop(0)
            if act[0] == "data":
                self._write_at(pipe, len(pipe.layers), act[1])
            elif act[0] == "garbage":
                self._write_at(pipe, max(0, len(pipe.layers) - 1), act[1])
                pipe.events.append(("garbage-sent", round(time.monotonic() - self.t0, 4)))
            elif act[0] == "reset":
                pipe.was_reset = True
                pipe.server_closed_first = True
                pipe.sock.setsockopt(socket.SOL_SOCKET, socket.SO_LINGER, struct.pack("ii", 1, 0))
                pipe.sock.close()
                return "gone"
            elif act[0] == "stall":
                return "stall"
            elif act[0] == "close":
                ragged = act[1]
                if not ragged:
                    for idx in range(len(pipe.layers) - 1, -1, -1):
                        L = pipe.layers[idx]
                        if L.done:
                            try:
                                L.obj.unwrap()
                            except (ssl.SSLError, OSError):
                                pass
                            self._flush_layer(pipe, idx)
                pipe.server_closed_first = True
                try:
                    pipe.sock.shutdown(socket.SHUT_WR)
                except OSError:
                    pass
                pipe.half_closed.set()
                return "half-closed"
        return None

    def _serve(self, pipe):
        sock = pipe.sock
        sock.settimeout(GIVE_UP)
        if sock.family != socket.AF_UNIX:
            sock.setsockopt(socket.IPPROTO_TCP, socket.TCP_NODELAY, 1)
        state = None
        f = self.fault_for(pipe)
        try:
            while True:
                if f is not None and f["kind"] == "read-stall" and pipe.raw_in >= f["at"] and not pipe.read_stalled:
                    pipe.read_stalled = True
                    pipe.fault_fired = dict(f)
                    with self.lock:
                        self.fired.append(dict(f))
                if pipe.read_stalled and not self.draining:
                    # the peer stops reading (and answering) but keeps the connection, until the client's run is over; then it drains what
                    # is queued so that the client's close (queued behind unread data) can be observed
                    t_stall = time.monotonic()
                    while not self.stopping and not self.draining and time.monotonic() - t_stall < GIVE_UP:
                        time.sleep(0.002)
                    if self.stopping or not self.draining:
                        pipe.events.append(("server-gave-up-waiting",))
                        return
                    state = "stall"
                    continue
                try:
                    raw = sock.recv(65536)
                except socket.timeout:
                    pipe.events.append(("server-gave-up-waiting",))
                    return
                except OSError as exc:
                    pipe.events.append(("client-reset", type(exc).__name__))
                    pipe.client_closed.set()
                    return
                if not raw:
                    pipe.client_closed.set()
                    with self.lock:
                        try:
                            pipe.peer.on_client_close()
                        except Exception as exc:  # pragma: no cover
                            self.errors.append(repr(exc))
                    return
                pipe.raw_in += len(raw)
                if state in ("half-closed", "stall") or pipe.stalled:
                    continue  # nothing more is said on this connection; keep reading so that the client's close is observed
                for plain in self._plaintext(pipe, raw):
                    with self.lock:
                        self.seq += 1
                        pipe.written += plain
                        pipe.peer.on_data(plain)
                state = self._flush(pipe) or state
                if state == "gone":
                    return
                if pipe.aborted:
                    return
        except OSError as exc:
            # a send failed: the client has closed / aborted the connection (nothing else makes a loopback send fail)
            pipe.events.append(("server-io-error", type(exc).__name__, str(exc)[:60]))
            pipe.client_closed.set()
        except Exception as exc:  # a defect of the harness / peer model, never a verdict
            import traceback

            self.errors.append(traceback.format_exc()[-600:])
        finally:
            try:
                sock.close()
            except OSError:
                pass
            pipe.ended.set()

    # ---- lifecycle
    def __enter__(self):
        socket.getaddrinfo = self.getaddrinfo
        return self

    def __exit__(self, *a):
        socket.getaddrinfo = _ORIG_GETADDRINFO
        self.stop()

    def wait_server_closes(self, timeout=5.0):
        """Block until every close the peer models have asked for has reached the wire (the FIN is then queued at the client's socket). Lets a
        scenario say 'the server closed the idle connection BEFORE the next request' without relying on timing."""
        deadline = time.monotonic() + timeout
        for p in list(self.pipes):
            if p.closing and not p.was_reset and not p.aborted and not p.ended.is_set():
                p.half_closed.wait(max(0.0, deadline - time.monotonic()))

    def wait_client_closed(self, timeout=3.0):
        """After the client has closed its pool: every connection the server did not end itself must see the client's close."""
        self.draining = True
        deadline = time.monotonic() + timeout
        missing = []
        for p in list(self.pipes):
            # the connection thread ends when the client has closed (or reset) the connection, when the server itself reset it, or when a
            # TLS handshake / record failed (the client's alert); otherwise it keeps reading - a thread that is still there is still waiting
            # for the client's close
            left = max(0.0, deadline - time.monotonic())
            if not p.ended.wait(left):
                missing.append(p.id)
        return missing

    def stop(self):
        self.stopping = True
        for s in list(self.listeners.values()):
            try:
                s.shutdown(socket.SHUT_RDWR)
            except OSError:
                pass
            s.close()
        for p in list(self.pipes):
            try:
                p.sock.shutdown(socket.SHUT_RDWR)
            except OSError:
                pass
        for s in self.filler:
            try:
                s.close()
            except OSError:
                pass
        for t in self.threads:
            t.join(timeout=2)
        for p in list(self.pipes):
            if p.thread is not None:
                p.thread.join(timeout=2)
