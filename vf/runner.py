"""Runner: seeds, sharding over processes, budgets, evidence, known findings, replay, exit codes.

exit 0  property held on everything explored (known findings are printed as KNOWN-FINDING lines)
exit 1  `VIOLATION property=<id> replay=<path>` printed for a violation that is not a listed finding
exit 2  harness error (import failure, Hypothesis health check, worker crash) - never a violation
"""
from __future__ import annotations

import argparse
import collections
import importlib
import json
import multiprocessing as mp
import os
import signal
import sys
import time
import traceback

from .common import (REPO, VERIF, HarnessError, Outcome, ViolationFound, jsonable, short,
                     stable_hash, unjson)

KNOWN_PATH = os.path.join(VERIF, "known_findings.json")
OUT = os.environ.get("VERIF_OUT") or VERIF  # self-tests against mutants write evidence/replays elsewhere
MAX_KEYS = 3_000_000


# --------------------------------------------------------------------------- known findings

def load_known():
    if not os.path.exists(KNOWN_PATH):
        return []
    with open(KNOWN_PATH) as f:
        data = json.load(f)
    return data.get("findings", [])


def _sig_match(pattern: dict, sig: dict) -> bool:
    for k, want in pattern.items():
        have = sig.get(k)
        if isinstance(want, dict) and "not" in want:
            if have in want["not"]:
                return False  # e.g. {"kind": {"not": [...]}}: symptoms this finding cannot explain are never absorbed by it
        elif isinstance(want, list):
            if have not in want:
                return False
        elif have != want:
            return False
    return True


def match_known(sig: dict, known: list[dict]):
    """Return the id of the open finding whose signature covers `sig`, else None."""
    for f in known:
        if f.get("status") != "open":
            continue
        if sig.get("property") not in [f.get("property")] + list(f.get("also_affects", [])):
            continue
        pats = f.get("signatures") or [f.get("signature", {})]
        for p in pats:
            p = {k: v for k, v in p.items() if k != "property"}  # the property is matched through property / also_affects
            if p and _sig_match(p, sig):
                return f["id"]
    return None


# --------------------------------------------------------------------------- worker

def shard_seed(seed: int, shard: int, layer_index: int) -> int:
    return (seed * 1000003 + shard * 7919 + layer_index * 104729 + 17) % (2**31 - 1)


class _StopShrinking(BaseException):
    pass


class WallClockStall(BaseException):
    """Safety net, not an oracle: one case ran for minutes of real time (normal cases take milliseconds). The code under test is spinning or
    blocked in a way the simulated world cannot see (e.g. a busy loop in synchronous code). Reported as a harness error (exit 2, inconclusive)
    unless the layer declares that non-termination is part of its property (stall_is_violation)."""


STALL_S = float(os.environ.get("VERIF_STALL_S") or "150")


def _alarm(signum, frame):
    raise WallClockStall()


def guarded_execute(prop, layer, case):
    """layer.execute(case) under a real-time watchdog (main thread of the worker process only)."""
    import threading

    import copy

    case = copy.deepcopy(case)  # an execution must never change the case that is reported / saved as the replay file
    if threading.current_thread() is not threading.main_thread():
        return layer.execute(case)
    old = signal.signal(signal.SIGALRM, _alarm)
    signal.setitimer(signal.ITIMER_REAL, getattr(layer, "stall_s", None) or STALL_S)
    try:
        return layer.execute(case)
    except WallClockStall:
        if getattr(layer, "stall_is_violation", False):
            from .common import V

            return Outcome([V(prop.id, "stall-wallclock", f"one case did not finish within {STALL_S:.0f} s of real time (normal: milliseconds): the code "
                              f"under test spins or blocks outside the simulated world; case: {json.dumps(jsonable(case))[:600]}")], ["stall"], True)
        raise HarnessError(f"case did not finish within {STALL_S:.0f} s of real time (inconclusive): {json.dumps(jsonable(case))[:400]}")
    finally:
        signal.setitimer(signal.ITIMER_REAL, 0)
        signal.signal(signal.SIGALRM, old)


class LayerStats:
    def __init__(self):
        self.evals = 0
        self.keys: set[int] = set()
        self.tags = collections.Counter()
        self.metrics = collections.Counter()
        self.samples: list = []
        self.excluded = collections.Counter()
        self.failures: list = []  # [(case, violations)]
        self.harness_error = None
        self.enum_total = None
        self.enum_done = 0
        self.seen = 0

    def record(self, case, out: Outcome):
        self.evals += 1
        for tg in out.tags:
            self.tags[tg] += 1
        for mk, mv in out.metrics.items():
            self.metrics[mk] += mv
        if out.nontrivial:
            k = stable_hash(out.key if out.key is not None else case)
            new = k not in self.keys
            if len(self.keys) < MAX_KEYS:
                self.keys.add(k)
            if new:
                self.seen += 1
                # keep the 1st, and then a thinning sample of distinct non-trivial cases
                n = self.seen
                if n <= 2 or (n & (n - 1)) == 0:
                    self.samples.append({"case": short(jsonable(case)), "tags": sorted(out.tags),
                                         "outcome": short(jsonable(out.info))})
                    if len(self.samples) > 12:
                        del self.samples[2]

    def to_dict(self):
        return {"evals": self.evals, "keys": self.keys, "tags": dict(self.tags), "metrics": dict(self.metrics), "samples": self.samples,
                "excluded": dict(self.excluded), "failures": self.failures,
                "harness_error": self.harness_error, "enum_total": self.enum_total,
                "enum_done": self.enum_done}


def _classify(out: Outcome, known, stats: LayerStats):
    fresh = []
    for v in out.violations:
        fid = match_known(v["sig"], known)
        if fid is None:
            fresh.append(v)
        else:
            stats.excluded[fid] += 1
    return fresh


def _run_hyp_layer(prop, layer, n_examples, seed, tier, known, stats: LayerStats):
    import hypothesis
    from hypothesis import HealthCheck, Phase, Verbosity, given, settings

    state = {"deadline": None, "first": None}
    shrink_s = prop.shrink_s[tier]

    def body(case):
        if state["deadline"] is not None and time.monotonic() > state["deadline"]:
            raise _StopShrinking()  # a BaseException: Hypothesis lets it through, the best failure so far is kept
        case = unjson(jsonable(case))
        out = guarded_execute(prop, layer, case)
        fresh = _classify(out, known, stats) if state["first"] is None else [
            v for v in out.violations if match_known(v["sig"], known) is None]
        if state["first"] is None:
            stats.record(case, out)
        if fresh:
            if state["first"] is None:
                state["first"] = (case, fresh)
                state["deadline"] = time.monotonic() + shrink_s
            state["last"] = (case, fresh)
            raise ViolationFound(fresh)

    test = given(layer.strategy())(body)
    test = settings(max_examples=n_examples, database=None, deadline=None, derandomize=False,
                    report_multiple_bugs=False, verbosity=Verbosity.quiet,
                    phases=[Phase.generate, Phase.shrink],
                    suppress_health_check=[HealthCheck.too_slow, HealthCheck.large_base_example,
                                           HealthCheck.data_too_large])(test)
    test = hypothesis.seed(seed)(test)
    try:
        test()
    except (ViolationFound, _StopShrinking):
        pass
    except BaseException as exc:  # health checks, harness bugs
        if state["first"] is None:
            stats.harness_error = "".join(traceback.format_exception(type(exc), exc, exc.__traceback__))[-4000:]
    if state["first"] is not None:
        case, fresh = state.get("last", state["first"])
        stats.failures.append((jsonable(case), fresh))


def _run_enum_layer(prop, layer, tier, shard, nshards, known, stats: LayerStats):
    limit = layer.budget.get(tier)
    total = 0
    for i, case in enumerate(layer.cases(tier)):
        total += 1
        if limit is not None and i >= limit:
            continue
        if i % nshards != shard:
            continue
        case = unjson(jsonable(case))
        out = guarded_execute(prop, layer, case)
        fresh = _classify(out, known, stats)
        stats.record(case, out)
        stats.enum_done += 1
        if fresh:
            sigs = {json.dumps(f[1][0]["sig"], sort_keys=True) for f in stats.failures}
            if json.dumps(fresh[0]["sig"], sort_keys=True) not in sigs and len(stats.failures) < 5:
                if out.replay is not None:
                    stats.failures.append((jsonable(out.replay[1]), fresh, out.replay[0]))
                else:
                    stats.failures.append((jsonable(case), fresh))
    stats.enum_total = total


def _worker(args):
    prop_id, tier, seed, shard, nshards = args
    try:
        signal.signal(signal.SIGINT, signal.SIG_IGN)
        import faulthandler

        faulthandler.register(signal.SIGUSR1, all_threads=True)
        mod = importlib.import_module(f"vf.props.{prop_id.lower()}")
        prop = mod.PROP
        known = load_known()
        res = {}
        for li, layer in enumerate(prop.layers):
            stats = LayerStats()
            try:
                if layer.setup:
                    layer.setup()
                if layer.kind == "hyp":
                    total = layer.budget.get(tier, 0)
                    n = total // nshards + (1 if shard < total % nshards else 0)
                    if n > 0:
                        _run_hyp_layer(prop, layer, n, shard_seed(seed, shard, li), tier, known, stats)
                else:
                    _run_enum_layer(prop, layer, tier, shard, nshards, known, stats)
            except BaseException as exc:
                stats.harness_error = "".join(traceback.format_exception(type(exc), exc, exc.__traceback__))[-4000:]
            res[layer.name] = stats.to_dict()
        return {"shard": shard, "layers": res}
    except BaseException as exc:
        return {"shard": shard, "fatal": "".join(traceback.format_exception(type(exc), exc, exc.__traceback__))[-4000:]}


# --------------------------------------------------------------------------- main

def write_replay(prop_id, layer, case_json, violations, seed):
    d = os.path.join(OUT, "replays")
    os.makedirs(d, exist_ok=True)
    h = stable_hash([layer, case_json]) & 0xFFFFFFFFFF
    path = os.path.join(d, f"{prop_id}-{h:010x}.json")
    with open(path, "w") as f:
        json.dump({"property": prop_id, "layer": layer, "seed": seed, "case": case_json,
                   "violations": violations}, f, indent=1, sort_keys=True)
    return os.path.relpath(path, OUT) if OUT == VERIF else path


def run_replay(prop, path, known):
    with open(path) as f:
        data = json.load(f)
    layer = next((l for l in prop.layers if l.name == data.get("layer")), None)
    if layer is None:
        raise HarnessError(f"replay file names unknown layer {data.get('layer')!r}")
    if layer.setup:
        layer.setup()
    case = unjson(data["case"])
    out = layer.execute(case)
    fresh, listed = [], []
    for v in out.violations:
        fid = match_known(v["sig"], known)
        (listed if fid else fresh).append((fid, v))
    for fid, v in listed:
        print(f"KNOWN-FINDING: property={prop.id} [{fid}] {v['msg'][:300]}")
    for _, v in fresh:
        print(f"violation: {json.dumps(v['sig'], sort_keys=True)} :: {v['msg'][:1500]}")
    if fresh:
        print(f"VIOLATION property={prop.id} replay={path}")
        return 1
    print(f"replay of {path}: property held ({len(listed)} listed finding(s) matched)")
    return 0


def replay_corpus(prop, known):
    """Committed regression corpus: replays/corpus/<ID>/*.json, executed first in both tiers."""
    d = os.path.join(VERIF, "replays", "corpus", prop.id)
    fails, n = [], 0
    if not os.path.isdir(d):
        return n, fails
    for name in sorted(os.listdir(d)):
        if not name.endswith(".json"):
            continue
        with open(os.path.join(d, name)) as f:
            data = json.load(f)
        layer = next((l for l in prop.layers if l.name == data.get("layer")), None)
        if layer is None:
            continue
        if layer.setup:
            layer.setup()
        out = layer.execute(unjson(data["case"]))
        n += 1
        fresh = [v for v in out.violations if match_known(v["sig"], known) is None]
        if fresh:
            fails.append((os.path.join("replays", "corpus", prop.id, name), fresh))
    return n, fails


def main(argv=None):
    ap = argparse.ArgumentParser(prog="check")
    ap.add_argument("id")
    ap.add_argument("--tier", default=os.environ.get("VERIF_TIER") or "quick", choices=["quick", "thorough"])
    ap.add_argument("--seed", type=int, default=None)
    ap.add_argument("--replay", default=None)
    ap.add_argument("--workers", type=int, default=None)
    ap.add_argument("--scale", type=float, default=1.0, help="multiply hypothesis budgets (calibration only)")
    args = ap.parse_args(argv)
    prop_id = args.id.upper()
    seed = args.seed if args.seed is not None else int(os.environ.get("VERIF_SEED") or "1")
    t0 = time.time()
    try:
        mod = importlib.import_module(f"vf.props.{prop_id.lower()}")
        prop = mod.PROP
        known = load_known()
    except BaseException as exc:
        traceback.print_exc()
        print(f"HARNESS-ERROR property={prop_id}: cannot load check: {exc!r}")
        return 2

    if args.replay:
        try:
            return run_replay(prop, args.replay, known)
        except BaseException as exc:
            traceback.print_exc()
            print(f"HARNESS-ERROR property={prop_id}: replay failed: {exc!r}")
            return 2

    tier = args.tier
    if args.scale != 1.0:
        for l in prop.layers:
            if l.kind == "hyp" and tier in l.budget:
                l.budget[tier] = max(1, int(l.budget[tier] * args.scale))
    nshards = args.workers or prop.workers[tier]
    nshards = max(1, min(nshards, os.cpu_count() or 1))

    harness_errors = []
    try:
        n_corpus, corpus_fails = replay_corpus(prop, known)
    except BaseException as exc:
        n_corpus, corpus_fails = 0, []
        harness_errors.append("corpus replay: " + "".join(traceback.format_exception(type(exc), exc, exc.__traceback__))[-3000:])

    jobs = [(prop_id, tier, seed, s, nshards) for s in range(nshards)]
    if nshards == 1:
        results = [_worker(jobs[0])]
    else:
        ctx = mp.get_context("fork")
        with ctx.Pool(nshards) as pool:
            results = pool.map(_worker, jobs, chunksize=1)

    # ---- aggregate
    evals = 0
    keys: set[int] = set()
    tags = collections.Counter()
    metrics = collections.Counter()
    samples = []
    excluded = collections.Counter()
    failures = []
    per_layer = {}
    exhaustive_layers = {}
    for r in results:
        if "fatal" in r:
            harness_errors.append(f"shard {r['shard']}: {r['fatal']}")
            continue
        for lname, st in r["layers"].items():
            pl = per_layer.setdefault(lname, {"evaluations": 0, "distinct_nontrivial": set()})
            pl["evaluations"] += st["evals"]
            pl["distinct_nontrivial"] |= st["keys"]
            evals += st["evals"]
            keys |= st["keys"]
            tags.update(st["tags"])
            metrics.update(st["metrics"])
            excluded.update(st["excluded"])
            for s in st["samples"]:
                s = dict(s)
                s["layer"] = lname
                samples.append(s)
            for item in st["failures"]:
                case_json, fresh = item[0], item[1]
                failures.append((item[2] if len(item) > 2 else lname, case_json, fresh))
            if st["harness_error"]:
                harness_errors.append(f"shard {r['shard']} layer {lname}: {st['harness_error']}")
            if st["enum_total"] is not None:
                e = exhaustive_layers.setdefault(lname, {"total": st["enum_total"], "done": 0})
                e["done"] += st["enum_done"]
    for lname, pl in per_layer.items():
        pl["distinct_nontrivial"] = len(pl["distinct_nontrivial"])
        if lname in exhaustive_layers:
            e = exhaustive_layers[lname]
            pl["enumerated_total"] = e["total"]
            pl["enumerated_done"] = e["done"]
            pl["exhaustive"] = e["done"] == e["total"]

    # pick up to 10 samples spread over layers
    samples.sort(key=lambda s: (s["layer"], json.dumps(s["case"], sort_keys=True)))
    if len(samples) > 10:
        step = len(samples) / 10.0
        samples = [samples[int(i * step)] for i in range(10)]

    # ---- violations
    replay_paths = []
    seen_sig = set()
    for path, fresh in corpus_fails:
        replay_paths.append((path, fresh))
    for lname, case_json, fresh in failures:
        sk = json.dumps(fresh[0]["sig"], sort_keys=True)
        if sk in seen_sig:
            continue
        seen_sig.add(sk)
        replay_paths.append((write_replay(prop_id, lname, case_json, fresh, seed), fresh))

    open_known = [f for f in known if f.get("status") == "open"
                  and (f.get("property") == prop_id or prop_id in f.get("also_affects", []))]

    coverage = {
        "evaluations": evals + n_corpus,
        "distinct_nontrivial": len(keys),
        "rule": prop.rule,
        "samples": samples,
        "layers": per_layer,
        "tag_histogram": dict(sorted(tags.items())),
        "metrics": dict(sorted(metrics.items())),
        "excluded_known": dict(excluded),
        "corpus_replayed": n_corpus,
        "workers": nshards,
        "shard_seeds": {l.name: [shard_seed(seed, s, li) for s in range(nshards)][:4] for li, l in enumerate(prop.layers)},
        "exhaustive": bool(per_layer) and all(pl.get("exhaustive", False) for pl in per_layer.values()),
        "explanation": prop.explanation,
    }
    if prop.extra_coverage:
        try:
            coverage.update(prop.extra_coverage(tier, coverage))
        except BaseException as exc:
            harness_errors.append(f"extra_coverage: {exc!r}")
    if harness_errors:
        coverage["harness_errors"] = [h[-1500:] for h in harness_errors[:5]]
    evidence = {
        "property_id": prop_id,
        "tier": tier,
        "seed": seed,
        "level": prop.level,
        "coverage": coverage,
        "assumptions": prop.assumptions,
        "wall_s": round(time.time() - t0, 3),
        "violations": len(replay_paths),
        "known_findings_open": [f["id"] for f in open_known],
    }
    os.makedirs(os.path.join(OUT, "evidence"), exist_ok=True)
    with open(os.path.join(OUT, "evidence", f"{prop_id}.json"), "w") as f:
        json.dump(evidence, f, indent=1, sort_keys=True)
        f.write("\n")

    # ---- report
    print(f"[{prop_id}] tier={tier} seed={seed} workers={nshards} evaluations={coverage['evaluations']} "
          f"distinct_nontrivial={coverage['distinct_nontrivial']} wall={evidence['wall_s']}s")
    for lname, pl in per_layer.items():
        extra = ""
        if "enumerated_total" in pl:
            extra = f" enumerated {pl['enumerated_done']}/{pl['enumerated_total']}"
        print(f"  layer {lname}: evaluations={pl['evaluations']} distinct_nontrivial={pl['distinct_nontrivial']}{extra}")
    if tags:
        print("  tags: " + ", ".join(f"{k}={v}" for k, v in sorted(tags.items())))
    for f in open_known:
        hit = excluded.get(f["id"], 0)
        print(f"KNOWN-FINDING: property={prop_id} [{f['id']}] {f['what']} (matched {hit} case(s) in this run)")
    if harness_errors:
        for h in harness_errors[:3]:
            print("HARNESS-ERROR: " + h[-3000:])
    if replay_paths:
        for path, fresh in replay_paths:
            for v in fresh[:3]:
                print(f"violation: {json.dumps(v['sig'], sort_keys=True)} :: {v['msg'][:1200]}")
            print(f"VIOLATION property={prop_id} replay={path}")
        return 1
    if harness_errors:
        return 2
    return 0


if __name__ == "__main__":
    sys.exit(main())
