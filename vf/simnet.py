"""SimNet: a simulated network behind httpcore's public NetworkBackend / AsyncNetworkBackend interface.

The harness owns every byte in both directions, every argument of every network call, the fault at
every operation, the segmentation of reads, the clock and a ledger of streams opened and closed.
Ops complete immediately ("inline") unless a gate is installed by a concurrent driver.
"""
from __future__ import annotations

import typing

from .common import HarnessError, import_httpcore

httpcore = import_httpcore()

EXC = {
    "ConnectError": httpcore.ConnectError, "ConnectTimeout": httpcore.ConnectTimeout,
    "ReadError": httpcore.ReadError, "ReadTimeout": httpcore.ReadTimeout,
    "WriteError": httpcore.WriteError, "WriteTimeout": httpcore.WriteTimeout,
}


_CATEGORY = {
    "error": {"connect": "ConnectError", "start_tls": "ConnectError", "read": "ReadError", "write": "WriteError"},
    "timeout": {"connect": "ConnectTimeout", "start_tls": "ConnectTimeout", "read": "ReadTimeout", "write": "WriteTimeout"},
    "eof": {"read": "eof"},
    "garbage": {"read": "garbage"},
}


class HarnessHang(BaseException):
    """A blocking operation that can never complete (inline mode: read with nothing pending, no timeout)."""


class Undocumented(Exception):
    """Stand-in for an exception a backend is not documented to raise (used by C20)."""


class Interrupt(BaseException):
    """Stand-in for a cancellation-like BaseException (used by C20)."""


EXC["Undocumented"] = Undocumented
EXC["Interrupt"] = Interrupt
# OSError-family exceptions that a backend lets through unmapped (C20: "any other kind of failure is never retried")
EXC["ConnectionResetError"] = ConnectionResetError
EXC["SSLCertVerificationError"] = __import__("ssl").SSLCertVerificationError


class VirtualClock:
    def __init__(self, start: float = 1000.0):
        self.now = start

    def monotonic(self) -> float:
        self.now += 1e-6  # strictly monotonic, like a real clock
        return self.now

    def advance(self, dt: float) -> None:
        self.now += dt


class _TimeShim:
    """Replaces the `time` module name inside httpcore's connection modules."""

    def __init__(self, clock):
        self._clock = clock

    def monotonic(self):
        return self._clock.monotonic()

    def __getattr__(self, name):
        import time

        return getattr(time, name)


_TIME_MODULES = ("httpcore._async.http11", "httpcore._async.http2", "httpcore._sync.http11", "httpcore._sync.http2",
                 "httpcore._async.connection_pool", "httpcore._sync.connection_pool", "httpcore._async.connection", "httpcore._sync.connection")


class patched_time:
    def __init__(self, clock):
        self.clock = clock
        self.saved = []

    def __enter__(self):
        import importlib

        shim = _TimeShim(self.clock)
        for name in _TIME_MODULES:
            mod = importlib.import_module(name)
            if not hasattr(mod, "time"):
                continue  # this module does not read the clock (in this version of the library)
            self.saved.append((mod, mod.time))
            mod.time = shim
        return self

    def __exit__(self, *a):
        for mod, orig in self.saved:
            mod.time = orig
        self.saved = []


class FakeSSLContext:
    """Any object with set_alpn_protocols is accepted by httpcore as ssl_context."""

    def __init__(self, name="origin-ctx"):
        self.name = name
        self.alpn: list[str] | None = None

    def set_alpn_protocols(self, protocols):
        self.alpn = list(protocols)


class SSLObj:
    def __init__(self, alpn):
        self._alpn = alpn

    def selected_alpn_protocol(self):
        return self._alpn

    def version(self):
        return "TLSv1.3"


class Pipe:
    def __init__(self, world, ordinal, kind, target, op_seq):
        self.world = world
        self.id = ordinal
        self.kind = kind  # 'tcp' | 'uds'
        self.target = target  # (host, port) or path
        self.inbound = bytearray()  # server -> client, not yet read
        self.in_flight = bytearray()  # server -> client, sent but not yet arrived (gated delivery)
        self.eof_pending = False
        self.eof = False  # server closed its side
        self.client_closed = False
        self.broken = False
        self.tls: list[dict] = []
        self.written = bytearray()  # all client -> server bytes
        self.sent = bytearray()  # all server -> client bytes
        self.delivered = 0  # bytes handed to client reads
        self.opened_seq = op_seq
        self.closed_seq: int | None = None
        self.peer = None
        self.reads = 0
        self.cuts: list[int] | None = None
        self.streams: list = []  # stream objects (layers) created on this pipe
        self.writes_after: list = []
        self.eof_reads = 0
        self.neg_written: int | None = None  # client->server offset where proxy negotiation ended (set at splice)
        self.neg_sent: int | None = None  # server->client offset where proxy negotiation ended
        self.truncate_at: int | None = None  # server->client stream ends (EOF) after this many bytes
        self.noseg_until = 0  # server->client offset below which reads are not segmented (SOCKS negotiation)
        self.eof_hidden = False  # the end of the stream was signalled inside TLS only (close_notify without FIN)

    # ---- server side API used by peers
    def server_send(self, data: bytes, direct: bool = False) -> None:
        if not data or self.client_closed or self.broken or self.eof or self.eof_pending:
            return
        if self.truncate_at is not None and len(self.sent) + len(data) >= self.truncate_at:
            data = data[: max(0, self.truncate_at - len(self.sent))]
            self.inbound += data
            self.sent += data
            self.eof = True  # the connection ends here
            return
        if self.world.deliver_gated and not direct:
            self.in_flight += data  # on the wire, not yet readable: a scheduler action delivers it
        else:
            self.inbound += data
        self.sent += data

    def server_close(self, hidden: bool = False) -> None:
        # hidden: the peer ends its TLS session (close_notify) but keeps the TCP connection for now (it waits for the client's close_notify):
        # reads see the end of the stream, the socket itself is not "readable" afterwards
        if hidden and self.tls:
            self.eof_hidden = True
        if self.in_flight:
            self.eof_pending = True
        else:
            self.eof = True

    def deliver(self, n=None) -> None:
        """Move in-flight server bytes into the client's receive buffer (concurrent drivers only)."""
        k = len(self.in_flight) if not n else min(n, len(self.in_flight))
        arrived = len(self.sent) - len(self.in_flight)
        if arrived < self.noseg_until and not self.world.seg_everything:
            # SOCKS negotiation replies are never split (httpcore parses each from one read(); see DESIGN 8.5 / 8.7)
            k = max(k, min(len(self.in_flight), self.noseg_until - arrived))
        if not self.client_closed and not self.broken:
            self.inbound += self.in_flight[:k]
        del self.in_flight[:k]
        if not self.in_flight and self.eof_pending:
            self.eof_pending = False
            self.eof = True

    @property
    def open(self) -> bool:
        return not self.client_closed

    @property
    def readable(self) -> bool:
        return bool(self.inbound) or self.eof or self.broken

    def __repr__(self):
        return f"<Pipe {self.id} {self.kind}:{self.target} open={self.open} tls={len(self.tls)}>"


class World:
    """One simulated network for one example."""

    def __init__(self, *, peer_factory, faults=None, seg=None, cuts=None, clock=None):
        self.peer_factory = peer_factory  # callable(world, pipe) -> peer
        self.clock = clock or VirtualClock()
        self.trace: list[dict] = []
        self.pipes: list[Pipe] = []
        self.seq = 0
        self.faults = list(faults or [])
        self.fired_faults: list[dict] = []
        self.seg = list(seg or [])  # cyclic list of max segment sizes for reads (0/None = unlimited)
        self.seg_i = 0
        self.seg_everything = False  # also segment negotiation replies (C15 only)
        self.cuts = {int(k): sorted(set(v)) for k, v in (cuts or {}).items()}  # pipe ordinal -> absolute offsets
        self.truncate: dict[int, int] = {}  # pipe ordinal -> server stream length after which the peer closes
        self.deliver_gated = False  # concurrent drivers: server bytes arrive through explicit deliver actions
        self.agate = None  # async gate: await agate(kind, pipe, info) -> value
        self.sgate = None  # sync gate (controlled threads)
        self.on_op = None  # callback(op) after every completed op (oracles evaluated at op boundaries)
        self.kind_count: dict = {}
        self.sleeps: list[float] = []
        self.current_actor = None  # set by drivers: which caller is running (attribution of ops)

    # ------------------------------------------------------------------ bookkeeping
    def _rec(self, kind, pipe, **kw) -> dict:
        self.seq += 1
        op = {"seq": self.seq, "kind": kind, "pipe": None if pipe is None else pipe.id, "t": self.clock.now,
              "actor": self.current_actor}
        op.update(kw)
        pk = (op["pipe"], kind)
        op["ordinal"] = self.kind_count.get(pk, 0)
        self.kind_count[pk] = op["ordinal"] + 1
        gk = ("*", kind)
        op["kind_index"] = self.kind_count.get(gk, 0)
        self.kind_count[gk] = op["kind_index"] + 1
        self.trace.append(op)
        return op

    def _done(self, op):
        if self.on_op is not None:
            self.on_op(op)

    def _fault_for(self, op):
        for f in self.faults:
            if f.get("fired") and not f.get("repeat"):
                continue
            if "at" in f:
                # global index over fault-eligible ops (everything except close/sleep)
                if f["at"] != op.get("elig"):
                    continue
            else:
                if f.get("kind") != op["kind"]:
                    continue
                if "pipe" in f and f["pipe"] != op["pipe"] and not (op["kind"] == "connect" and f["pipe"] == len(self.pipes)):
                    continue
                if "ordinal" in f and f["ordinal"] != op["ordinal"]:
                    continue
                if "kind_index" in f and f["kind_index"] != op["kind_index"]:
                    continue
            f["fired"] = True
            name = f["fault"]
            if name in _CATEGORY:
                # a fault *category*: resolved to the documented failure kind of the op it lands on
                name = _CATEGORY[name].get(op["kind"], _CATEGORY["error"][op["kind"]])
            self.fired_faults.append({"fault": name, "seq": op["seq"], "kind": op["kind"], "pipe": op["pipe"]})
            return name
        return None

    def _elig(self, op):
        op["elig"] = self.kind_count.get("elig", 0)
        self.kind_count["elig"] = op["elig"] + 1

    @staticmethod
    def _raise(name, op, msg=""):
        op["exc"] = name
        raise EXC[name](msg or f"injected {name}")

    # ------------------------------------------------------------------ operations (plain functions)
    def do_connect(self, kind, *, host=None, port=None, path=None, timeout=None, local_address=None,
                   socket_options=None) -> Pipe:
        op = self._rec("connect", None, transport=kind, host=host, port=port, path=path, timeout=timeout,
                       local_address=local_address, socket_options=socket_options)
        self._elig(op)
        fault = self._fault_for(op)
        if fault:
            self._done(op)
            self._raise(fault, op)
        pipe = Pipe(self, len(self.pipes), kind, (host, port) if kind == "tcp" else path, op["seq"])
        self.pipes.append(pipe)
        op["pipe"] = pipe.id
        if pipe.id in self.cuts:
            pipe.cuts = self.cuts[pipe.id]
        if pipe.id in self.truncate:
            pipe.truncate_at = self.truncate[pipe.id]
            if pipe.truncate_at == 0:
                pipe.eof = True
        pipe.peer = self.peer_factory(self, pipe)
        self._done(op)
        return pipe

    def do_start_tls(self, stream, ssl_context, server_hostname, timeout, alpn_at_call="unset"):
        pipe = stream.pipe
        # the real backends read the context's ALPN list when start_tls() is CALLED (wrap_bio / wrap_socket run before the first
        # suspension), not when the handshake completes: the list is captured by the stream wrappers before any gate
        alpn = getattr(ssl_context, "alpn", None) if alpn_at_call == "unset" else alpn_at_call
        op = self._rec("start_tls", pipe, server_hostname=server_hostname, timeout=timeout,
                       alpn=None if alpn is None else list(alpn), ctx=getattr(ssl_context, "name", type(ssl_context).__name__),
                       layer=stream.layer, at_written=len(pipe.written))
        self._elig(op)
        if pipe.client_closed:
            self._done(op)
            self._raise("ConnectError", op, "start_tls on closed stream")
        fault = self._fault_for(op)
        if fault is None and (pipe.broken or (pipe.eof and not pipe.inbound)):
            fault = "ConnectError"
        if fault:
            if issubclass(EXC[fault], Exception) and not getattr(self, "tls_failure_leaves_open", False):
                self._close_pipe(pipe)  # all real backends: `except Exception: close(); raise`
            # (tls_failure_leaves_open: a backend written against the documented interface that does NOT close the stream when its handshake
            # fails - closing it is then the caller's, i.e. httpcore's, business)
            self._done(op)
            self._raise(fault, op)
        selected = pipe.peer.on_tls(server_hostname, None if alpn is None else list(alpn))
        pipe.tls.append({"server_hostname": server_hostname, "alpn": None if alpn is None else list(alpn),
                         "selected": selected, "at_written": len(pipe.written), "seq": op["seq"],
                         "ctx": op["ctx"], "timeout": timeout})
        op["selected"] = selected
        self._done(op)
        return selected

    def do_read(self, stream, max_bytes, timeout, seg=None) -> bytes:
        pipe = stream.pipe
        op = self._rec("read", pipe, max_bytes=max_bytes, timeout=timeout, layer=stream.layer, r_off=pipe.delivered)
        self._elig(op)
        if pipe.client_closed:
            self._done(op)
            self._raise("ReadError", op, "read on closed stream")
        fault = self._fault_for(op)
        if fault == "eof":
            del pipe.inbound[:]
            pipe.eof = True
            fault = None
        elif fault == "garbage":
            # the peer sends bytes that are no valid HTTP/1.1, HTTP/2 or SOCKS message and then goes away: a protocol error
            pipe.inbound[:] = b"\x00\x01\x02 this is not a protocol message \xff\xfe\r\n\r\n" * 2
            pipe.in_flight[:] = b""
            pipe.eof = True
            op["garbage"] = True
            fault = None
        elif fault == "ReadError":
            pipe.broken = True
            del pipe.inbound[:]
        if fault:
            self._done(op)
            self._raise(fault, op)
        if pipe.inbound:
            n = min(len(pipe.inbound), max_bytes)
            protected = pipe.delivered < pipe.noseg_until and not self.seg_everything
            if protected:
                pass
            elif seg:
                n = min(n, seg)
            elif self.seg:
                s = self.seg[self.seg_i % len(self.seg)]
                self.seg_i += 1
                if s:
                    n = min(n, s)
            if pipe.cuts and not protected:
                for c in pipe.cuts:
                    if c > pipe.delivered:
                        n = min(n, c - pipe.delivered)
                        break
            data = bytes(pipe.inbound[:n])
            del pipe.inbound[:n]
            pipe.delivered += n
            op["n"] = n
            self._done(op)
            return data
        if pipe.eof or pipe.broken:
            op["n"] = 0
            pipe.eof_reads += 1
            self._done(op)
            if pipe.eof_reads > 200:
                raise HarnessHang(f"pipe {pipe.id}: {pipe.eof_reads} consecutive reads at EOF - the caller spins on a closed connection")
            return b""
        # nothing pending and the peer has not closed: a real read would block
        hook = getattr(pipe, "before_block", None)
        if hook is not None and hook():
            self.trace.pop()  # re-issue the same read now that the peer has spoken
            self.kind_count[(op["pipe"], "read")] -= 1
            self.kind_count[("*", "read")] -= 1
            self.kind_count["elig"] -= 1
            self.seq -= 1
            return self.do_read(stream, max_bytes, timeout, seg)
        if timeout is not None:
            self.clock.advance(timeout)
            op["blocked"] = True
            self._done(op)
            self._raise("ReadTimeout", op, "simulated: no data within the timeout")
        op["blocked"] = True
        self._done(op)
        raise HarnessHang(f"read on pipe {pipe.id} would block forever (no data pending, peer open, no timeout)")

    def do_write(self, stream, data: bytes, timeout) -> None:
        pipe = stream.pipe
        data = bytes(data)
        op = self._rec("write", pipe, data=data, timeout=timeout, layer=stream.layer, tls_depth=len(pipe.tls),
                       w_off=len(pipe.written))
        if not data:
            self._done(op)
            return
        self._elig(op)
        if pipe.client_closed:
            self._done(op)
            self._raise("WriteError", op, "write on closed stream")
        fault = self._fault_for(op)
        if fault == "WriteErrorAfterDelivery":
            # the bytes went out (the kernel had accepted them) and the error is reported afterwards, e.g. a peer that has stopped reading and
            # answers early: the server received the data and what it has sent stays readable. Only the CLIENT's sending side is gone.
            pipe.written += data
            if not pipe.eof:
                pipe.peer.on_data(data)
            pipe.send_broken = True
            self.fired_faults[-1]["fault"] = "WriteError"
            self._done(op)
            self._raise("WriteError", op, "injected WriteError (after the bytes were delivered)")
        if getattr(pipe, "send_broken", False):
            self._done(op)
            self._raise("WriteError", op, "write on a connection whose sending side has failed")
        if fault == "WriteError":
            pipe.broken = True
            del pipe.inbound[:]
        if fault:
            self._done(op)
            self._raise(fault, op)
        if pipe.broken:
            self._done(op)
            self._raise("WriteError", op, "write on broken pipe")
        pipe.written += data
        if not pipe.eof:
            pipe.peer.on_data(data)
        self._done(op)

    def _close_pipe(self, pipe):
        if not pipe.client_closed:
            pipe.client_closed = True
            pipe.closed_seq = self.seq
            del pipe.inbound[:]
            try:
                pipe.peer.on_client_close()
            except Exception:  # pragma: no cover
                pass

    def do_close(self, stream) -> None:
        pipe = stream.pipe
        op = self._rec("close", pipe, layer=stream.layer, already=pipe.client_closed)
        if stream.layer == 0 and len(pipe.tls) >= 1 and not pipe.client_closed:
            # the plain-TCP stream object after a successful TLS upgrade: with the synchronous backend the socket has been handed over to the
            # SSLSocket (socket.detach()), so closing the old object closes nothing - the strictest of the three real backends is the model
            op["superseded"] = True
            self._done(op)
            return
        self._close_pipe(pipe)
        self._done(op)

    def do_sleep(self, seconds) -> None:
        op = self._rec("sleep", None, seconds=seconds)
        self.sleeps.append(seconds)
        self.clock.advance(seconds)
        self._done(op)

    # ------------------------------------------------------------------ ledger helpers
    def open_pipes(self):
        return [p for p in self.pipes if p.open]

    def ops(self, kind=None, pipe=None):
        return [o for o in self.trace if (kind is None or o["kind"] == kind) and (pipe is None or o["pipe"] == pipe)]


def _extra_info(stream, info):
    pipe = stream.pipe
    if info == "ssl_object":
        return stream.ssl_object
    if info == "is_readable":
        if pipe.eof_hidden:
            return (not pipe.client_closed) and (bool(pipe.inbound) or pipe.broken)
        return (not pipe.client_closed) and pipe.readable
    if info == "client_addr":
        return ("127.0.0.1", 50000 + pipe.id)
    if info == "server_addr":
        return pipe.target
    if info == "socket":
        return None
    return None


class SimStream(httpcore.NetworkStream):
    def __init__(self, world: World, pipe: Pipe, layer: int = 0, ssl_object=None):
        self.world = world
        self.pipe = pipe
        self.layer = layer
        self.ssl_object = ssl_object
        pipe.streams.append(self)

    def read(self, max_bytes: int, timeout: float | None = None) -> bytes:
        seg = None
        if self.world.sgate:
            seg = self.world.sgate("read", self.pipe, self)
        return self.world.do_read(self, max_bytes, timeout, seg)

    def write(self, buffer: bytes, timeout: float | None = None) -> None:
        if self.world.sgate and buffer:
            self.world.sgate("write", self.pipe, self)
        self.world.do_write(self, buffer, timeout)

    def close(self) -> None:
        if self.world.sgate:
            self.world.sgate("close", self.pipe, self)
        self.world.do_close(self)

    def start_tls(self, ssl_context, server_hostname=None, timeout=None):
        alpn = getattr(ssl_context, "alpn", None)
        alpn = None if alpn is None else list(alpn)
        if self.world.sgate:
            self.world.sgate("start_tls", self.pipe, self)
        sel = self.world.do_start_tls(self, ssl_context, server_hostname, timeout, alpn_at_call=alpn)
        return SimStream(self.world, self.pipe, self.layer + 1, SSLObj(sel))

    def get_extra_info(self, info: str) -> typing.Any:
        return _extra_info(self, info)


class SimBackend(httpcore.NetworkBackend):
    def __init__(self, world: World):
        self.world = world

    def connect_tcp(self, host, port, timeout=None, local_address=None, socket_options=None):
        if self.world.sgate:
            self.world.sgate("connect", None, None)
        pipe = self.world.do_connect("tcp", host=host, port=port, timeout=timeout, local_address=local_address,
                                     socket_options=socket_options)
        return SimStream(self.world, pipe)

    def connect_unix_socket(self, path, timeout=None, socket_options=None):
        if self.world.sgate:
            self.world.sgate("connect", None, None)
        pipe = self.world.do_connect("uds", path=path, timeout=timeout, socket_options=socket_options)
        return SimStream(self.world, pipe)

    def sleep(self, seconds: float) -> None:
        if self.world.sgate:
            self.world.sgate("sleep", None, seconds)
        self.world.do_sleep(seconds)


class AsyncSimStream(httpcore.AsyncNetworkStream):
    def __init__(self, world: World, pipe: Pipe, layer: int = 0, ssl_object=None):
        self.world = world
        self.pipe = pipe
        self.layer = layer
        self.ssl_object = ssl_object
        pipe.streams.append(self)

    async def read(self, max_bytes: int, timeout: float | None = None) -> bytes:
        seg = None
        if self.world.agate:
            seg = await self.world.agate("read", self.pipe, {"timeout": timeout})
        return self.world.do_read(self, max_bytes, timeout, seg)

    async def write(self, buffer: bytes, timeout: float | None = None) -> None:
        if self.world.agate and buffer:
            await self.world.agate("write", self.pipe, {"timeout": timeout})
        self.world.do_write(self, buffer, timeout)

    async def aclose(self) -> None:
        # anyio's SocketStream.aclose closes the transport first and then yields once
        self.world.do_close(self)
        if self.world.agate:
            await self.world.agate("closed", self.pipe, None)

    async def start_tls(self, ssl_context, server_hostname=None, timeout=None):
        alpn = getattr(ssl_context, "alpn", None)
        alpn = None if alpn is None else list(alpn)
        if self.world.agate:
            await self.world.agate("start_tls", self.pipe, {"timeout": timeout})
        sel = self.world.do_start_tls(self, ssl_context, server_hostname, timeout, alpn_at_call=alpn)
        return AsyncSimStream(self.world, self.pipe, self.layer + 1, SSLObj(sel))

    def get_extra_info(self, info: str) -> typing.Any:
        return _extra_info(self, info)


class AsyncSimBackend(httpcore.AsyncNetworkBackend):
    def __init__(self, world: World):
        self.world = world

    async def connect_tcp(self, host, port, timeout=None, local_address=None, socket_options=None):
        if self.world.agate:
            await self.world.agate("connect", None, {"timeout": timeout})
        pipe = self.world.do_connect("tcp", host=host, port=port, timeout=timeout, local_address=local_address,
                                     socket_options=socket_options)
        return AsyncSimStream(self.world, pipe)

    async def connect_unix_socket(self, path, timeout=None, socket_options=None):
        if self.world.agate:
            await self.world.agate("connect", None, {"timeout": timeout})
        pipe = self.world.do_connect("uds", path=path, timeout=timeout, socket_options=socket_options)
        return AsyncSimStream(self.world, pipe)

    async def sleep(self, seconds: float) -> None:
        if self.world.agate:
            await self.world.agate("sleep", None, {"seconds": seconds})
        self.world.do_sleep(seconds)
