"""Controlled-threads driver for C08: real threads, but only the holder of the baton runs. Pre-emption points: every SimNet op, every
operation on the cooperative Lock / Event / Semaphore objects that stand in for `threading.*` inside httpcore._synchronization, and
(optionally) every source line of httpcore/_sync/*.py and _synchronization.py (sys.settrace). The schedule is a generated list of switch
points (PCT style: the running thread continues until a switch point or until it blocks)."""
from __future__ import annotations

import os
import sys
import threading

from .common import REPO, import_httpcore
from .drivers import build_pool, sync_request
from .simnet import HarnessHang, World, patched_time

httpcore = import_httpcore()

_SYNC_DIR = os.path.realpath(os.path.join(REPO, "httpcore", "_sync")) + os.sep
_SYNCH_FILE = os.path.realpath(os.path.join(REPO, "httpcore", "_synchronization.py"))


class Unwind(BaseException):
    """Raised inside blocked threads to wind them down after a deadlock."""


class CThread:
    def __init__(self, sched, tid, fn):
        self.sched = sched
        self.id = tid
        self.fn = fn
        self.sem = threading.Semaphore(0)
        self.state = "new"  # new | runnable | blocked | done
        self.pred = None
        self.deadline = None
        self.timed_out = False
        self.thread = threading.Thread(target=self._main, name=f"vf-{tid}", daemon=True)
        self.error = None
        self.blocked_site = None

    def _main(self):
        self.sem.acquire()
        sched = self.sched
        try:
            if sched.aborting:
                return
            if sched.line_trace:
                sys.settrace(sched._trace)
            self.fn(self)
        except Unwind:
            pass
        except BaseException as exc:  # pragma: no cover
            self.error = exc
        finally:
            sys.settrace(None)
            self.state = "done"
            sched._thread_finished(self)


class Sched:
    def __init__(self, clock, switches=(), block_choices=(), line_trace=False, step_limit=400000):
        self.clock = clock
        self.threads: list[CThread] = []
        self.current: CThread | None = None
        self.switches = {}  # yield-point index -> (thread choice, switch back after k op-level yield points | None)
        for k, v in dict(switches).items():
            self.switches[int(k)] = tuple(v) if isinstance(v, (list, tuple)) else (v, None)
        self.pending_back = None
        self.block_choices = list(block_choices)
        self.bi = 0
        self.steps = 0
        self.line_trace = line_trace
        self.done_evt = threading.Event()
        self.deadlock = None
        self.aborting = False
        self.step_limit = step_limit
        self.overflow = False
        self.switch_log: list = []
        self.in_httpcore_switches = 0
        self.on_switch = None

    # ---- trace function: line-level pre-emption inside the sync package
    def _trace(self, frame, event, arg):
        fn = frame.f_code.co_filename
        if event == "call":
            rp = os.path.realpath(fn) if not fn.startswith(_SYNC_DIR) else fn
            if rp.startswith(_SYNC_DIR) or rp == _SYNCH_FILE:
                return self._line_trace
            return None
        return None

    def _line_trace(self, frame, event, arg):
        if event == "line":
            self.yield_point(("line", os.path.basename(frame.f_code.co_filename), frame.f_lineno))
        return self._line_trace

    # ---- core
    def add(self, fn):
        t = CThread(self, len(self.threads), fn)
        self.threads.append(t)
        return t

    def runnable(self):
        out = []
        for t in self.threads:
            if t.state in ("new", "runnable"):
                out.append(t)
            elif t.state == "blocked" and t.pred is not None and t.pred():
                out.append(t)
        return out

    def _switch_to(self, nxt: CThread, me: CThread | None):
        if nxt is me:
            return
        self.current = nxt
        if self.on_switch is not None:
            self.on_switch(nxt.id)
        if nxt.state == "blocked":
            nxt.state = "runnable"
        elif nxt.state == "new":
            nxt.state = "runnable"
        nxt.sem.release()
        if me is not None and me.state != "done":
            me.sem.acquire()
            if self.aborting and me.state != "done":
                raise Unwind()

    def yield_point(self, site=None):
        me = self.current
        if me is None or threading.current_thread() is not me.thread or self.aborting:
            return
        i = self.steps
        self.steps += 1
        if self.steps > self.step_limit:
            self.overflow = True
            self._abort(me)
            raise Unwind()
        if self.pending_back is not None and site is not None and site[0] == "op":
            back, k = self.pending_back
            if k <= 1:
                self.pending_back = None
                if back is not me and back.state in ("runnable",) :
                    self.switch_log.append((i, me.id, back.id, ("back",) + tuple(site)))
                    self.in_httpcore_switches += 1
                    me.state = "runnable"
                    self._switch_to(back, me)
                    return
            else:
                self.pending_back = (back, k - 1)
        if i in self.switches:
            cands = self.runnable()
            if len(cands) > 1:
                choice, back_after = self.switches[i]
                nxt = cands[choice % len(cands)]
                if nxt is not me:
                    self.switch_log.append((i, me.id, nxt.id, site))
                    if site is not None and site[0] != "boundary":
                        self.in_httpcore_switches += 1
                    if back_after:
                        self.pending_back = (me, back_after)
                    me.state = "runnable"
                    self._switch_to(nxt, me)

    def block(self, pred, site=None, timeout=None):
        """The running thread cannot continue until pred() holds. Returns False if it timed out (virtual clock)."""
        me = self.current
        if me is None or threading.current_thread() is not me.thread:
            return True
        if pred():
            return True
        me.state = "blocked"
        me.pred = pred
        me.blocked_site = site
        me.timed_out = False
        me.deadline = None if timeout is None else self.clock.now + timeout
        self._pick_other(me)
        me.pred = None
        me.deadline = None
        if me.timed_out:
            me.timed_out = False
            return False
        return True

    def _pick_other(self, me: CThread):
        while True:
            cands = [t for t in self.runnable() if t is not me] + ([me] if me.state == "blocked" and me.pred() else [])
            if cands:
                if self.bi < len(self.block_choices):
                    nxt = cands[self.block_choices[self.bi] % len(cands)]
                    self.bi += 1
                else:
                    nxt = cands[0]
                if nxt is me:
                    me.state = "runnable"
                    return
                self.switch_log.append((self.steps, me.id, nxt.id, ("blocked",) + tuple(site_tuple(me.blocked_site))))
                self._switch_to(nxt, me)
                if me.state == "runnable":
                    return
                continue
            # nobody can run: fire the earliest timer, or it is a deadlock
            timed = [t for t in self.threads if t.state == "blocked" and t.deadline is not None]
            if timed:
                t = min(timed, key=lambda x: x.deadline)
                if t.deadline > self.clock.now:
                    self.clock.now = t.deadline
                t.timed_out = True
                t.pred = lambda: True
                continue
            self.deadlock = [(t.id, t.blocked_site) for t in self.threads if t.state == "blocked"]
            self._abort(me)
            raise Unwind()

    def _abort(self, me):
        self.aborting = True
        for t in self.threads:
            if t is not me and t.state != "done":
                t.sem.release()
        self.done_evt.set()

    def _thread_finished(self, me: CThread):
        if self.aborting:
            if all(t.state == "done" for t in self.threads):
                self.done_evt.set()
            return
        cands = self.runnable()
        if cands:
            nxt = cands[0]
            if self.bi < len(self.block_choices):
                nxt = cands[self.block_choices[self.bi] % len(cands)]
                self.bi += 1
            self._switch_to(nxt, None)
            return
        if all(t.state == "done" for t in self.threads):
            self.current = None
            self.done_evt.set()
            return
        # unfinished threads but none runnable
        timed = [t for t in self.threads if t.state == "blocked" and t.deadline is not None]
        if timed:
            t = min(timed, key=lambda x: x.deadline)
            if t.deadline > self.clock.now:
                self.clock.now = t.deadline
            t.timed_out = True
            t.pred = lambda: True
            self._switch_to(t, None)
            return
        self.deadlock = [(t.id, t.blocked_site) for t in self.threads if t.state == "blocked"]
        self._abort(me)

    def run(self):
        for t in self.threads:
            t.thread.start()
        first = self.threads[0]
        if self.bi < len(self.block_choices):
            first = self.threads[self.block_choices[self.bi] % len(self.threads)]
            self.bi += 1
        self.current = first
        if self.on_switch is not None:
            self.on_switch(first.id)
        first.state = "runnable"
        first.sem.release()
        ok = self.done_evt.wait(timeout=60)
        if not ok:
            self.aborting = True
            for t in self.threads:
                t.sem.release()
        for t in self.threads:
            t.thread.join(timeout=10)
        return ok


def site_tuple(site):
    if site is None:
        return ()
    return site if isinstance(site, tuple) else (site,)


# ----------------------------------------------------------------------------- cooperative stand-ins for threading.*

def make_threading_namespace(sched: Sched):
    class Lock:
        def __init__(self):
            self._locked = False
            self._owner = None

        def acquire(self, blocking=True, timeout=-1):
            sched.yield_point(("lock-acquire",))
            if self._locked:
                if not blocking:
                    return False
                sched.block(lambda: not self._locked, site=("lock",))
            self._locked = True
            self._owner = sched.current.id if sched.current else None
            return True

        def release(self):
            self._locked = False
            self._owner = None
            sched.yield_point(("lock-release",))

        def locked(self):
            return self._locked

        __enter__ = acquire

        def __exit__(self, *a):
            self.release()

    class Event:
        def __init__(self):
            self._flag = False

        def set(self):
            self._flag = True
            sched.yield_point(("event-set",))

        def is_set(self):
            return self._flag

        def clear(self):
            self._flag = False

        def wait(self, timeout=None):
            sched.yield_point(("event-wait",))
            if self._flag:
                return True
            ok = sched.block(lambda: self._flag, site=("event",), timeout=timeout)
            return bool(self._flag) if ok else self._flag

    class Semaphore:
        def __init__(self, value=1):
            self._value = value

        def acquire(self, blocking=True, timeout=None):
            sched.yield_point(("sem-acquire",))
            if self._value <= 0:
                if not blocking:
                    return False
                sched.block(lambda: self._value > 0, site=("semaphore",))
            self._value -= 1
            return True

        def release(self, n=1):
            self._value += n
            sched.yield_point(("sem-release",))

    class NS:
        pass

    ns = NS()
    ns.Lock, ns.Event, ns.Semaphore = Lock, Event, Semaphore
    ns.RLock = Lock
    ns.current_thread = threading.current_thread
    return ns


class ThreadRun:
    """Run caller programs (lists of request specs) on real threads sharing one sync pool under the scheduler."""

    def __init__(self, world: World, pool_cfg, programs, *, switches=(), block_choices=(), line_trace=False, warmup=(), on_op=None):
        self.world = world
        self.pool_cfg = pool_cfg
        self.programs = programs
        self.sched = Sched(world.clock, switches=switches, block_choices=block_choices, line_trace=line_trace)
        self.results = [[] for _ in programs]
        self.warmup = list(warmup)
        self.warm_results = []
        self.pool = None
        self.final_repr = None
        self.on_op = on_op
        self.open_after_close = None
        self.close_intents: list = []
        self.unserialised_passes: list = []  # pool passes that ran without the pool lock held or while another thread was inside one

    def _probe_pool_passes(self):
        """Diagnosis only (never an oracle by itself): note whether the pool's assignment pass was ever entered without its thread lock
        held by the entering thread, or while another thread was inside a pass. Used to tell the recorded finding 'closed by another
        thread's *serialised* pass' from failures that come from passes racing each other."""
        pool = self.pool
        orig = getattr(pool, "_assign_requests_to_connections", None)
        if orig is None:
            return
        inside: set = set()
        run = self

        def probed():
            cur = run.sched.current
            tid = cur.id if cur is not None else None
            lock = getattr(getattr(pool, "_optional_thread_lock", None), "_lock", None)
            held = lock is not None and getattr(lock, "_locked", False) and getattr(lock, "_owner", None) == tid
            if tid is not None and (inside - {tid} or not held):
                run.unserialised_passes.append((run.world.seq, tid, sorted(inside), held))
            inside.add(tid)
            try:
                return orig()
            finally:
                inside.discard(tid)

        pool._assign_requests_to_connections = probed

    def _gate(self, kind, pipe, info):
        s = self.sched
        if kind == "close" and pipe is not None:
            # the connection object has already been marked closed by the closing thread when it reaches the network close
            self.close_intents.append((self.world.seq, s.current.id if s.current else None, pipe.id))
        s.yield_point(("op", kind))
        if kind == "read" and pipe is not None and not (pipe.readable or pipe.client_closed):
            s.block(lambda: pipe.readable or pipe.client_closed, site=("read", pipe.id))
        return None

    def run(self):
        import httpcore._synchronization as sync_mod

        world = self.world
        orig_threading = sync_mod.threading
        sync_mod.threading = make_threading_namespace(self.sched)
        try:
            with patched_time(world.clock):
                self.pool = build_pool(world, self.pool_cfg, sync=True)
                for spec in self.warmup:  # sequential warm-up on the main thread (creates idle connections)
                    self.warm_results.append(sync_request(self.pool, spec))
                world.sgate = self._gate
                self._probe_pool_passes()
                if self.on_op is not None:
                    world.on_op = self.on_op

                self.sched.on_switch = lambda tid: setattr(world, "current_actor", tid)

                def make(i, prog):
                    def fn(ct):
                        for step in prog:
                            self.sched.yield_point(("boundary",))
                            s0 = world.seq
                            out = sync_request(self.pool, dict(step["spec"]))
                            out.pop("network_stream", None)
                            out["tok"] = step["tok"]
                            out["seq_window"] = (s0, world.seq)
                            self.results[i].append(out)
                    return fn

                for i, prog in enumerate(self.programs):
                    self.sched.add(make(i, prog))
                self.finished = self.sched.run()
                world.sgate = None
                world.on_op = None
                self.final_repr = repr(self.pool)
                self.final_conns = [repr(c) for c in self.pool.connections]
                try:
                    self.pool.close()
                except BaseException as exc:  # pragma: no cover
                    self.close_error = exc
                self.open_after_close = [p.id for p in world.pipes if p.open]
        finally:
            sync_mod.threading = orig_threading
            world.sgate = None
        return self
