"""Connection kinds (topologies) shared by several property modules."""
from __future__ import annotations

from .peers.endpoints import NetConfig

PROXY_EP = {"proxy.test:3128": {"role": "proxy"}, "proxy.test:3129": {"role": "proxy"}, "socks.test:1080": {"role": "socks"}}

# kind -> (pool config, scheme, alpn of the origin endpoint)
KINDS = {
    "direct-h1": ({}, "http", "http/1.1"),
    "direct-tls-h1": ({}, "https", "http/1.1"),
    "direct-h2": ({"http2": True}, "https", "h2"),
    "direct-h2-fallback-h1": ({"http2": True}, "https", "http/1.1"),
    "prior-h2": ({"http2": True, "http1": False}, "http", "h2"),
    "forward": ({"proxy": {"url": "http://proxy.test:3128"}}, "http", "http/1.1"),
    "forward-auth": ({"proxy": {"url": "http://proxy.test:3128", "auth": ["puser", "ppass"], "headers": [["X-Proxy-H", "ph1"]]}}, "http", "http/1.1"),
    "forward-https-proxy": ({"proxy": {"url": "https://proxy.test:3129"}}, "http", "http/1.1"),
    "tunnel-h1": ({"proxy": {"url": "http://proxy.test:3128"}}, "https", "http/1.1"),
    "tunnel-auth-h1": ({"proxy": {"url": "http://proxy.test:3128", "auth": ["puser", "ppass"], "headers": [["X-Proxy-H", "ph1"]]}}, "https", "http/1.1"),
    "tunnel-h2": ({"proxy": {"url": "http://proxy.test:3128"}, "http2": True}, "https", "h2"),
    "tunnel-https-proxy-h1": ({"proxy": {"url": "https://proxy.test:3129"}}, "https", "http/1.1"),
    "socks-h1": ({"proxy": {"url": "socks5://socks.test:1080"}}, "http", "http/1.1"),
    "socks-auth-h1": ({"proxy": {"url": "socks5://socks.test:1080", "auth": ["suser", "spass"]}}, "http", "http/1.1"),
    "socks-tls-h1": ({"proxy": {"url": "socks5://socks.test:1080"}}, "https", "http/1.1"),
    "socks-auth-tls-h2": ({"proxy": {"url": "socks5h://socks.test:1080", "auth": ["suser", "spass"]}, "http2": True}, "https", "h2"),
}


REFUSALS = {
    "tunnel-refused": ("tunnel-h1", {"proxy": {"status": 403, "reason": "Forbidden", "body_len": 9}}),
    "tunnel-refused-keepalive": ("tunnel-h1", {"proxy": {"status": 407, "reason": "Auth", "body_len": 0, "close": False}}),
    "socks-refused": ("socks-h1", {"socks": {"reply": 5}}),
    "socks-auth-refused": ("socks-auth-h1", {"socks": {"auth_status": 1}}),
}
for _k, (_base, _) in REFUSALS.items():
    KINDS[_k] = KINDS[_base]


# Unix-domain-socket pools: only the checks that name them use them (they are not part of KINDS, which also drives the real-socket layers)
UDS_KINDS = {
    "uds-h1": ({"uds": "/run/sim.sock"}, "http", "http/1.1"),
    "uds-tls-h1": ({"uds": "/run/sim.sock"}, "https", "http/1.1"),
    "uds-tls-h2": ({"uds": "/run/sim.sock", "http2": True}, "https", "h2"),
    # HTTP/1.1 disabled: HTTP/2 is spoken over TLS although the server's ALPN answer is not h2 (the peer model detects the protocol from the first bytes)
    "tls-h2-forced": ({"http2": True, "http1": False}, "https", "http/1.1"),
}


def topo(kind, *, hosts=("a.test", "b.test", "c.test", "d.test"), plans=None, default_plan=None, proxy=None, socks=None, h2=None,
         pool_extra=None):
    """Return (pool_cfg, NetConfig, scheme). Origin endpoints for `hosts` are registered on ports 80/443/8080/8443."""
    pool_cfg, scheme, alpn = KINDS[kind] if kind in KINDS else UDS_KINDS[kind]
    pool_cfg = dict(pool_cfg)
    if kind in REFUSALS:
        extra = REFUSALS[kind][1]
        proxy = extra.get("proxy", proxy)
        socks = extra.get("socks", socks)
    if pool_extra:
        pool_cfg.update(pool_extra)
    eps = dict(PROXY_EP)
    for h in hosts:
        for port in (80, 443, 8080, 8443):
            eps[f"{h}:{port}"] = {"role": "origin", "alpn": alpn}
    cfg = NetConfig(endpoints=eps, default_endpoint={"role": "origin", "alpn": alpn}, plans=plans, default_plan=default_plan,
                    proxy=proxy, socks=socks, h2=h2)
    return pool_cfg, cfg, scheme


def is_h2(kind):
    return (KINDS[kind] if kind in KINDS else UDS_KINDS[kind])[2] == "h2"
