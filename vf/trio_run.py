"""Concurrent trio driver: the same scenarios, gate, scheduler and cancellation injector as vf/aio.py, but the callers are trio tasks, so
httpcore takes the trio branches of `_synchronization.py` (trio.Lock / Event / Semaphore / CancelScope(shield=True) / fail_after). The public
surface is the one of AioRun (callers, results, deadlock, overflow, steps, quiescences, pool(s), epilogue, on_quiescence), so the property
modules run unchanged scenarios on either runtime.

Differences that matter:
* cancellation is scope-style only (trio has no one-shot task.cancel());
* time is a harness-owned trio Clock reading the virtual clock, so trio deadlines (the pool timeout is a `trio.fail_after`) fire exactly when the
  scheduler moves the virtual clock to them;
* a task that does not unwind after the final cancellation sits in a shielded block: its shields are lifted (harness side) so that trio.run() can
  end, and the task is reported in `stuck_tasks`, as the asyncio driver does by abandoning it.
"""
from __future__ import annotations

import trio

from .aio import OPTIONAL, BusyLoop, Caller, counted, suspension_site  # noqa: F401  (Caller re-exported)
from .common import import_httpcore
from .drivers import async_request, build_pool, exc_info
from .simnet import HarnessHang, World, patched_time

httpcore = import_httpcore()


class _VClock(trio.abc.Clock):
    def __init__(self, vclock):
        self.v = vclock

    def start_clock(self):
        pass

    def current_time(self):
        return self.v.now

    def deadline_to_sleep_time(self, deadline):
        # the scheduler task is always runnable, so trio never really sleeps; this value only bounds an unexpected idle wait
        return 0.0 if deadline <= self.v.now else 0.01


class _Handle:
    """Minimal stand-in for the asyncio Task attributes the property modules read."""

    def __init__(self):
        self._done = False

    def done(self):
        return self._done

    def cancelled(self):
        return False


class _Slot:
    def __init__(self):
        self.event = trio.Event()
        self.value = None
        self.cancelled = False

    def done(self):
        return self.event.is_set()


class Parked:
    __slots__ = ("kind", "pipe", "info", "fut", "caller", "seq")

    def __init__(self, kind, pipe, info, fut, caller, seq):
        self.kind, self.pipe, self.info, self.fut, self.caller, self.seq = kind, pipe, info, fut, caller, seq


def _deterministic_scheduling():
    # trio shuffles each batch of runnable tasks; the documented switch for reproducible runs (used by pytest-trio under Hypothesis)
    import trio._core._run as trun

    trun._ALLOW_DETERMINISTIC_SCHEDULING = True
    trun._r.seed(0)


class TrioRun:
    runtime = "trio"

    def __init__(self, world: World, pool_cfg, callers: list[Caller], *, choices=(), segs=(), allow_server_close=0,
                 advances=(), dsegs=(), on_quiescence=None, step_limit=4000, epilogue=None, gate_h2=True, late=(), bursts=(), policy=None):
        self.world = world
        self.pool_cfg = pool_cfg
        self.callers = callers
        self.choices = list(choices)
        self.ci = 0
        self.segs = list(segs)
        self.si = 0
        self.dsegs = list(dsegs)
        self.dsi = 0
        self.parked: list[Parked] = []
        self.seq = 0
        self.allow_server_close = allow_server_close
        self.advances = list(advances)
        self.on_quiescence = on_quiescence
        self.step_limit = step_limit
        self.epilogue = epilogue
        self.deadlock = None
        self.overflow = False
        self.steps = 0
        self.pool = None
        self.activity = 0
        self.log: list = []
        self.gate_h2 = gate_h2
        self.quiescences = 0
        self.shield_depth: dict = {}
        self.active_shields: list = []
        self.harness_error = None
        self.record_sites = False
        self.busy = None
        self.first_issue: dict = {}
        self.stuck_tasks: list = []
        self.shared_ssl_context = False
        self.pools: list = []
        self.epilogue_stuck = False
        # "the loop is late": after a progress action the clock jumps to the earliest pending deadline before anybody else runs, so that a wake-up
        # and a timeout fall into the same loop iteration (cyclic list of 0/1 choices; empty = never)
        self.late = list(late)
        self.li = 0
        self.policy = policy  # fallback order once the choice list is used up: None = oldest network op first; "reads-first" = what the server
        # has to say (emit, deliver) and reads before any write, so that peer actions are seen between two writes of an upload
        self.bursts = list(bursts)  # cyclic list: 0 = one action per period, k > 0 = also apply the (k-1)-th other enabled action
        self.bi = 0
        self.winding_down = False

    # ------------------------------------------------------------------ gate
    async def gate(self, kind, pipe, info):
        self.activity += 1
        self.first_issue.setdefault(self.world.current_actor, self.world.clock.now)
        if kind == "closed":
            await trio.lowlevel.cancel_shielded_checkpoint()  # a schedule point (the real backends yield once after closing)
            return None
        slot = _Slot()
        self.seq += 1
        p = Parked(kind, pipe, info, slot, self.world.current_actor, self.seq)
        self.parked.append(p)
        if not hasattr(self, "in_gate"):
            self.in_gate = {}
        actor = self.world.current_actor
        self.in_gate[actor] = kind  # until the caller has actually resumed from this operation (the scheduler may have completed it already)
        try:
            await slot.event.wait()
            return slot.value
        finally:
            self.in_gate.pop(actor, None)
            if p in self.parked:
                self.parked.remove(p)

    # ------------------------------------------------------------------ callers
    async def _step(self, caller: Caller, step: dict):
        pool = self.pools[step.get("pool", 0)]
        mode = step.get("mode", "read_all")
        spec = dict(step["spec"])
        t0 = self.world.clock.now
        if mode == "read_all":
            spec.setdefault("api", "request")
            out = await async_request(pool, spec)
        elif mode == "hold":
            caller_ev = trio.Event()

            async def hook(resp):
                caller.release_after = step.get("release_after", [])
                caller.state = "holding"
                caller.release = caller_ev
                await caller_ev.wait()
                caller.state = "running"
                caller.release = None

            spec["api"] = "stream"
            spec["read"] = step.get("read", "all")
            spec["_on_response"] = hook
            out = await async_request(pool, spec)
        else:
            spec["api"] = "stream"
            spec["read"] = 0 if mode == "close_unread" else mode["read_chunks"]
            out = await async_request(pool, spec)
        out["t0"], out["t1"] = t0, self.world.clock.now
        out.pop("network_stream", None)
        return out

    async def _program(self, caller: Caller):
        for step in caller.program:
            out = await self._step(caller, step)
            out["tok"] = step.get("tok")
            caller.results.append(out)

    async def _caller_main(self, caller: Caller):
        caller.state = "running"
        world = self.world

        def before():
            world.current_actor = caller.id
            caller.resumed += 1
            self.activity += 1

        def on_yield():
            world.current_actor = None
            self._apply_pending_jump()
            caller.susp += 1
            if self.record_sites:
                caller.sites.append(suspension_site(caller.program_coro))
            c = caller.cancel
            if c is not None and caller.cancel_fired_at is None and caller.susp == c.get("at"):
                caller.cancel_fired_at = caller.susp
                caller.cancel_site = suspension_site(caller.program_coro)
                caller.in_shield_at_cancel = self.shield_depth.get(caller.id, 0) > 0
                caller.parked_kind_at_cancel = getattr(self, "in_gate", {}).get(caller.id)
                caller.scope.cancel()

        def on_throw(e):
            if isinstance(e, trio.Cancelled) and caller.delivery_site is None and caller.cancel_fired_at is not None and not self.winding_down:
                caller.delivery_site = suspension_site(caller.program_coro)
                caller.in_shield_at_delivery = self.shield_depth.get(caller.id, 0) > 0
                caller.parked_kind_at_delivery = getattr(self, "in_gate", {}).get(caller.id)

        caller.program_coro = self._program(caller)
        try:
            with trio.CancelScope() as scope:
                caller.scope = scope
                await counted(caller.program_coro, before, on_yield, on_throw)
            if scope.cancelled_caught:
                caller.cancelled = True
        except trio.Cancelled:
            caller.cancelled = True  # the harness' own final cancellation
            raise
        except HarnessHang as exc:
            caller.error = {"type": "HANG", "msg": str(exc)}
        except BaseException as exc:
            caller.error = exc_info(exc)
        finally:
            world.current_actor = None
            self._apply_pending_jump()
            caller.state = "done"
            caller.task._done = True
            self.activity += 1

    # ------------------------------------------------------------------ scheduler
    async def _spin(self):
        await trio.lowlevel.cancel_shielded_checkpoint()

    async def quiesce(self):
        idle = 0
        spins = 0
        while idle < 3:
            before = self.activity
            await self._spin()
            spins += 1
            st = trio.lowlevel.current_statistics()
            if st.tasks_runnable > 0 or self.activity != before:
                idle = 0
            else:
                idle += 1
            if spins > 20000:
                raise BusyLoop("the trio run never becomes quiescent: some task is spinning without waiting for anything")
        self.quiescences += 1

    def _h2_peers(self):
        res = []
        for p in self.world.pipes:
            if not p.open:
                continue
            leaf = p.peer.leaf()
            h2 = getattr(leaf, "h2", None)
            if h2 is not None and h2.gated:
                res.append((p, h2))
        return res

    def _next_deadline(self):
        s = trio.lowlevel.current_statistics().seconds_to_next_deadline
        return None if s == float("inf") else self.world.clock.now + max(0.0, s)

    def enabled(self):
        acts = []
        for p in sorted(self.parked, key=lambda x: x.seq):
            if p.fut.done():
                continue
            if p.kind == "read":
                if p.pipe.readable or p.pipe.client_closed:
                    acts.append(("op", p))
            else:
                acts.append(("op", p))
        for pipe, h2 in self._h2_peers():
            for q in h2.emittable():
                acts.append(("emit", pipe, q))
        for pipe in self.world.pipes:
            if pipe.in_flight or pipe.eof_pending:
                acts.append(("deliver", pipe))
        for c in sorted(self.callers, key=lambda c: (not getattr(c, "start_first", False), c.id)):
            if c.state == "new":
                acts.append(("start", c))
            elif c.state == "holding" and c.release is not None and not c.release.is_set():
                if all(self.callers[j].state == "done" for j in c.release_after):
                    acts.append(("release", c))
        if self._next_deadline() is not None:
            acts.append(("timer",))
        if self.allow_server_close > 0:
            for pipe in self.world.pipes:
                if pipe.open and not pipe.eof and self._server_idle(pipe):
                    acts.append(("server_close", pipe))
        if self.advances:
            acts.append(("advance", self.advances[0]))
        return acts

    def _server_idle(self, pipe):
        leaf = pipe.peer.leaf()
        exs = leaf.all_exchanges() if hasattr(leaf, "all_exchanges") else []
        if not exs:
            return False
        for ex in exs:
            if not ex["complete"] or ex["resp_end"] is None or pipe.delivered < ex["resp_end"]:
                return False
        return True

    def _choose(self, acts):
        if self.ci < len(self.choices):
            i = self.choices[self.ci] % len(acts)
            self.ci += 1
            return acts[i]
        prog = [a for a in acts if a[0] not in OPTIONAL]
        if self.policy == "reads-first":
            first = [a for a in prog if a[0] in ("emit", "deliver") or (a[0] == "op" and a[1].kind == "read")]
            if first:
                return first[0]
        non_timer = [a for a in prog if a[0] != "timer"]
        return (non_timer or prog or acts)[0]

    def _dseg(self):
        if not self.dsegs:
            return None
        s = self.dsegs[self.dsi % len(self.dsegs)]
        self.dsi += 1
        return s or None

    def _seg(self):
        if not self.segs:
            return None
        s = self.segs[self.si % len(self.segs)]
        self.si += 1
        return s or None

    async def apply(self, act):
        kind = act[0]
        self.log.append((self.steps, kind) + tuple(getattr(a, "kind", None) or getattr(a, "id", None) or (a if isinstance(a, (int, float, str)) else None) for a in act[1:]))
        if kind == "op":
            p = act[1]
            if p in self.parked:
                self.parked.remove(p)
            if not p.fut.done():
                p.fut.value = self._seg() if p.kind == "read" else None
                p.fut.event.set()
        elif kind == "emit":
            act[1].peer.leaf().h2.emit(act[2])
        elif kind == "deliver":
            act[1].deliver(self._dseg())
        elif kind == "start":
            c = act[1]
            c.state = "running"
            c.task = _Handle()
            self.nursery.start_soon(self._caller_main, c)
        elif kind == "release":
            act[1].release.set()
        elif kind == "timer":
            t = self._next_deadline()
            if t is not None and t > self.world.clock.now:
                self.world.clock.now = t
        elif kind == "server_close":
            self.allow_server_close -= 1
            act[1].server_close()
        if kind in ("op", "emit", "deliver", "release", "server_close") and self.late:
            late = self.late[self.li % len(self.late)]
            self.li += 1
            t = self._next_deadline()
            if late and t is not None and t > self.world.clock.now:
                self.world.clock.now = t
                self._jumped_in_step = self.steps
                self.log.append((self.steps, "late-loop", t))
        if kind == "advance":
            dt = self.advances.pop(0)
            now = self.world.clock.now
            t = self._next_deadline()
            if t is not None and now < t < now + dt:
                self.advances.insert(0, now + dt - t)
                dt = t - now
            self.world.clock.advance(dt)

    def _lift_shields(self):
        for s in list(self.active_shields):
            sh = getattr(s, "_trio_shield", None)
            if sh is not None:
                sh.shield = False

    async def main(self):
        self.world.agate = self.gate
        self.world.h2_gated = self.gate_h2
        self.world.deliver_gated = True
        self._install_shield_probe()
        try:
            if isinstance(self.pool_cfg, list):
                from .simnet import FakeSSLContext

                shared = FakeSSLContext("origin-ctx") if self.shared_ssl_context else None
                self.pools = [build_pool(self.world, c, sync=False, ssl_context=shared) for c in self.pool_cfg]
                self.pool = self.pools[0]
            else:
                self.pool = build_pool(self.world, self.pool_cfg, sync=False)
                self.pools = [self.pool]
            async with trio.open_nursery() as nursery:
                self.nursery = nursery
                while True:
                    try:
                        await self.quiesce()
                    except BusyLoop as exc:
                        self.overflow = True
                        self.busy = str(exc)
                        break
                    if self.on_quiescence is not None:
                        self.on_quiescence(self)
                    acts = self.enabled()
                    unfinished = [c for c in self.callers if c.state != "done"]
                    progress = [a for a in acts if a[0] not in OPTIONAL]
                    if not unfinished:
                        break
                    if not progress:
                        self.deadlock = {"blocked": [(c.id, c.state) for c in unfinished],
                                         "parked": [(p.kind, p.pipe.id if p.pipe else None, p.caller) for p in self.parked]}
                        break
                    self.steps += 1
                    if self.steps > self.step_limit:
                        self.overflow = True
                        break
                    await self.apply(self._choose(acts))
                    if self.bursts:
                        # two things may happen "at once": a second action is applied before anybody runs, so that two callers are runnable in the same
                        # period and interleave at their own suspension points (not only at network operations)
                        b = self.bursts[self.bi % len(self.bursts)]
                        self.bi += 1
                        if b:
                            more = [a for a in self.enabled() if a[0] in ("op", "start", "release", "deliver", "emit")]
                            if more:
                                self.steps += 1
                                await self.apply(more[(b - 1) % len(more)])
                # ---- wind down: nothing is gated any more
                self.winding_down = True
                self.world.agate = None
                self.world.h2_gated = False
                self.world.deliver_gated = False
                for pipe in self.world.pipes:
                    pipe.deliver()
                for pipe, h2 in self._h2_peers():
                    h2.gated = False
                nursery.cancel_scope.cancel()
                for p in list(self.parked):
                    if not p.fut.done():
                        p.fut.event.set()  # an op parked inside a shield simply proceeds (ungated) - everything else sees the cancellation
                for _ in range(2000):
                    if all(c.task is None or c.task.done() for c in self.callers):
                        break
                    await self._spin()
                self.stuck_tasks = [c.id for c in self.callers if c.task is not None and not c.task.done()]
                if self.stuck_tasks:
                    # a task waits, shielded, for something nobody will provide: lift the shields so that the run can end (reported, not waited for)
                    for _ in range(200):
                        self._lift_shields()
                        if all(c.task is None or c.task.done() for c in self.callers):
                            break
                        await self._spin()
            if self.epilogue is not None:
                done = trio.Event()
                err = []

                async def ep():
                    try:
                        await self.epilogue(self)
                    except trio.Cancelled:
                        raise
                    except BaseException as exc:  # noqa: BLE001 - re-raised in the scheduler task below
                        err.append(exc)
                    finally:
                        done.set()

                async with trio.open_nursery() as nursery2:
                    nursery2.start_soon(ep)
                    for _ in range(50000):
                        if done.is_set():
                            break
                        await self._spin()
                    if not done.is_set():
                        self.epilogue_stuck = True
                        nursery2.cancel_scope.cancel()
                        for _ in range(400):
                            self._lift_shields()
                            if done.is_set():
                                break
                            await self._spin()
                if err:
                    raise err[0]
        finally:
            self._remove_shield_probe()

    def _on_assigned_by_other(self, actor):
        caller = next((c for c in self.callers if c.id == actor), None)
        if caller is None or caller.cancel is None or caller.cancel.get("on_assign") is None or caller.cancel_fired_at is not None:
            return
        caller.assigned_by_other = getattr(caller, "assigned_by_other", 0) + 1
        if caller.assigned_by_other != caller.cancel["on_assign"] or caller.scope is None or caller.state == "done":
            return
        caller.cancel_fired_at = caller.susp
        caller.cancel_site = suspension_site(caller.program_coro)
        caller.in_shield_at_cancel = self.shield_depth.get(caller.id, 0) > 0
        caller.parked_kind_at_cancel = getattr(self, "in_gate", {}).get(caller.id)
        caller.cancelled_on_assign = True
        caller.scope.cancel()

    def _apply_pending_jump(self):
        if not getattr(self, "_jump_pending", False):
            return
        self._jump_pending = False
        if getattr(self, "_jumped_in_step", None) == self.steps:
            return  # one jump per scheduler step: what the first one made due (timeouts, their clean-up) runs before time moves again
        self._jumped_in_step = self.steps
        t = self._next_deadline()
        if t is not None and t > self.world.clock.now:
            self.world.clock.now = t
            self.log.append((self.steps, "late-loop", t))

    def _install_shield_probe(self):
        from httpcore import _synchronization as sync_mod

        cls = sync_mod.AsyncShieldCancellation
        self._orig_enter, self._orig_exit = cls.__enter__, cls.__exit__
        run = self

        def enter(s):
            a = run.world.current_actor
            run.shield_depth[a] = run.shield_depth.get(a, 0) + 1
            s._vf_actor = a
            run.active_shields.append(s)
            return run._orig_enter(s)

        def exit_(s, *args):
            a = getattr(s, "_vf_actor", None)
            run.shield_depth[a] = run.shield_depth.get(a, 1) - 1
            if s in run.active_shields:
                run.active_shields.remove(s)
            return run._orig_exit(s, *args)

        cls.__enter__, cls.__exit__ = enter, exit_
        self._shield_cls = cls
        # "late loop" at the finest grain: time may pass right after a pool event has been set, before the woken waiter runs, so that its
        # wake-up and its deadline fall into the same loop iteration
        ev_cls = sync_mod.AsyncEvent
        self._orig_event_set = ev_cls.set

        def set_(ev):
            run._orig_event_set(ev)
            if not run.late:
                return
            late = run.late[run.li % len(run.late)]
            run.li += 1
            if late:
                # time passes "right after" the event is set - for everybody who runs LATER. The task that is running now finishes its
                # synchronous step on the old clock (otherwise the moment at which it reports its own result would be distorted): the jump
                # is applied when it suspends or ends
                run._jump_pending = True

        ev_cls.set = set_
        self._event_cls = ev_cls
        # "cancelled while being served": a caller may be cancelled at the very moment ANOTHER task hands its queued request a connection
        # (cancel = {"on_assign": n}: at the n-th such hand-over), i.e. after the wake-up was issued and before the woken caller has run
        from httpcore._async import connection_pool as pool_mod
        req_cls = getattr(pool_mod, "AsyncPoolRequest", None)
        self._req_cls = None
        if req_cls is not None and hasattr(req_cls, "assign_to_connection"):
            self._req_cls = req_cls
            self._orig_req_init, self._orig_req_assign = req_cls.__init__, req_cls.assign_to_connection

            def init_(pr, *a, **k):
                run._orig_req_init(pr, *a, **k)
                pr._vf_actor = run.world.current_actor

            def assign_(pr, connection):
                run._orig_req_assign(pr, connection)
                actor = getattr(pr, "_vf_actor", None)
                if connection is not None and actor is not None and actor != run.world.current_actor:
                    run._on_assigned_by_other(actor)

            req_cls.__init__, req_cls.assign_to_connection = init_, assign_

    def _remove_shield_probe(self):
        self._shield_cls.__enter__, self._shield_cls.__exit__ = self._orig_enter, self._orig_exit
        self._event_cls.set = self._orig_event_set
        if getattr(self, "_req_cls", None) is not None:
            self._req_cls.__init__, self._req_cls.assign_to_connection = self._orig_req_init, self._orig_req_assign

    def run(self):
        _deterministic_scheduling()
        try:
            with patched_time(self.world.clock):
                trio.run(self.main, clock=_VClock(self.world.clock))
        except BaseException as exc:
            self.harness_error = exc
            raise
        return self


def make_run(runtime):
    if runtime == "trio":
        return TrioRun
    from .aio import AioRun

    return AioRun
